use vstd::prelude::*;
verus! {
pub struct R { pub count: usize, pub held: Ghost<bool> }
impl R {
    pub fn inc(&mut self) requires old(self).count < 100 ensures final(self).count == old(self).count + 1, final(self).held == old(self).held { self.count += 1; }
}
#[verifier::external_body]
pub fn release(r: &mut R) ensures final(r).count == old(r).count, final(r).held@ == false { unimplemented!() }

pub struct W { pub shared: R }
impl W {
    #[verifier::external_body]
    pub fn readiness(&mut self) -> (r: &mut R)
        requires !old(self).shared.held@
        ensures r.count == old(self).shared.count, r.held@, final(self).shared == *final(r),
    { unimplemented!() }
    pub fn get(&self) requires !self.shared.held@ {}
}

pub fn test(w: &mut W, flag: bool)
    requires old(w).shared.count == 0, !old(w).shared.held@
    ensures final(w).shared.count == 2 
{
    let mut readiness = w.readiness();
    readiness.inc();
    release(readiness);
    assert(w.shared.count == 1);
    w.get();
    readiness = w.readiness();
    readiness.inc();
}

pub fn test2(w: &mut W, n: usize)
    requires old(w).shared.count == 0, !old(w).shared.held@, n < 50
    ensures final(w).shared.count == n
{
    let mut readiness = w.readiness();
    for i in 0..n
        invariant readiness.count == i, readiness.held@, n < 50
    {
        if i % 2 == 0 {
            release(readiness);
            w.get();
            readiness = w.readiness();
        }
        readiness.inc();
    }
}
}
fn main() {}
