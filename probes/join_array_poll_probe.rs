use vstd::prelude::*;
use core::task::Poll;
verus! {

pub assume_specification<T> [core::mem::drop] (_0: T);

#[verifier::external_type_specification]
#[verifier::accept_recursive_types(T)]
pub struct ExPoll<T>(core::task::Poll<T>);

#[derive(Debug, Clone, Copy)]
#[repr(u8)]
pub enum PollState { None, Pending, Ready }

impl PollState {
    pub fn is_pending(&self) -> (r: bool) ensures r == (*self is Pending) { matches!(self, Self::Pending) }
    pub fn is_ready(&self) -> (r: bool) ensures r == (*self is Ready) { matches!(self, Self::Ready) }
    pub fn set_ready(&mut self) ensures *final(self) == PollState::Ready { *self = PollState::Ready; }
    pub fn set_none(&mut self) ensures *final(self) == PollState::None { *self = PollState::None; }
}

// ---------- readiness (would be the verbatim verified struct) -----------
pub struct ReadinessArray<const N: usize> {
    pub count: usize,
    pub readiness_list: [bool; N],
    pub held: Ghost<bool>,
    pub woken: Ghost<bool>,   // parent waker (current) woken since set_waker
}
pub open spec fn count_true(s: Seq<bool>) -> nat decreases s.len()
{ if s.len() == 0 { 0 } else { count_true(s.drop_last()) + if s.last() { 1nat } else { 0nat } } }

impl<const N: usize> ReadinessArray<N> {
    pub open spec fn wf(&self) -> bool { self.count as nat == count_true(self.readiness_list@) }
    pub open spec fn bits(&self) -> Seq<bool> { self.readiness_list@ }
    #[verifier::external_body]
    pub fn any_ready(&self) -> (r: bool) requires self.wf() ensures r == exists|i:int| 0 <= i < N && self.bits()[i] { unimplemented!() }
    #[verifier::external_body]
    pub fn clear_ready(&mut self, id: usize) -> (r: bool)
        requires old(self).wf(), id < N
        ensures final(self).wf(), r == old(self).bits()[id as int], final(self).bits() == old(self).bits().update(id as int, false),
           final(self).held == old(self).held, final(self).woken == old(self).woken
    { unimplemented!() }
    #[verifier::external_body]
    pub fn set_waker(&mut self)
        requires old(self).wf()
        ensures final(self).wf(), final(self).bits() == old(self).bits(), final(self).held == old(self).held, final(self).woken@ == false
    { unimplemented!() }
}
#[verifier::external_body]
pub fn release<const N: usize>(r: &mut ReadinessArray<N>)
    ensures final(r).bits() == old(r).bits(), final(r).wf() == old(r).wf(), final(r).held@ == false, final(r).woken == old(r).woken
{ unimplemented!() }

pub open spec fn superset(a: Seq<bool>, b: Seq<bool>) -> bool {
    a.len() == b.len() && forall|i: int| 0 <= i < a.len() ==> (a[i] ==> b[i])
}

pub struct WakerArray<const N: usize> { pub shared: ReadinessArray<N> }
impl<const N: usize> WakerArray<N> {
    #[verifier::external_body]
    pub fn lock(&mut self)
        requires !old(self).shared.held@, old(self).shared.wf()
        ensures final(self).shared.wf(), final(self).shared.held@, superset(old(self).shared.bits(), final(self).shared.bits()),
           (final(self).shared.bits() != old(self).shared.bits()) ==> final(self).shared.woken@,
           old(self).shared.woken@ ==> final(self).shared.woken@,
    { unimplemented!() }
    #[verifier::external_body]
    pub fn unlock(&mut self)
        requires old(self).shared.held@
        ensures final(self).shared.wf() == old(self).shared.wf(), final(self).shared.bits() == old(self).shared.bits(), !final(self).shared.held@, final(self).shared.woken == old(self).shared.woken
    { unimplemented!() }
}

// ---------- children -------------
pub enum Ev { Poll(int), Drop(int) }
pub struct FutureArray<T, const N: usize> { pub live: Ghost<Seq<bool>>, pub log: Ghost<Seq<Ev>>, pub _t: core::marker::PhantomData<T> }
impl<T, const N: usize> FutureArray<T, N> {
    #[verifier::external_body]
    pub fn poll_child(&mut self, i: usize, w: &mut WakerArray<N>) -> (r: Poll<T>)
        requires i < N, old(self).live@.len() == N, old(self).live@[i as int], !old(w).shared.held@, old(w).shared.wf()
        ensures final(self).live == old(self).live, final(self).log@ == old(self).log@.push(Ev::Poll(i as int)),
           final(w).shared.wf(), !final(w).shared.held@, superset(old(w).shared.bits(), final(w).shared.bits()),
           (final(w).shared.bits() != old(w).shared.bits()) ==> final(w).shared.woken@,
           old(w).shared.woken@ ==> final(w).shared.woken@,
    { unimplemented!() }
    #[verifier::external_body]
    pub fn drop_child(&mut self, i: usize)
        requires i < N, old(self).live@.len() == N, old(self).live@[i as int]
        ensures final(self).live@ == old(self).live@.update(i as int, false), final(self).log@ == old(self).log@.push(Ev::Drop(i as int))
    { unimplemented!() }
}
pub struct OutputArray<T, const N: usize> { pub v: Ghost<Seq<Option<T>>> , pub _t: core::marker::PhantomData<T>}
impl<T, const N: usize> OutputArray<T, N> {
    #[verifier::external_body]
    pub fn write(&mut self, idx: usize, value: T)
        requires idx < N, old(self).v@.len() == N, old(self).v@[idx as int] is None
        ensures final(self).v@ == old(self).v@.update(idx as int, Some(value))
    { unimplemented!() }
    #[verifier::external_body]
    pub fn take(&mut self) -> (r: [T; N])
        requires old(self).v@.len() == N, forall|i:int| 0 <= i < N ==> old(self).v@[i] is Some
        ensures forall|i:int| 0 <= i < N ==> old(self).v@[i] == Some(r@[i]), final(self).v@ == Seq::new(N as nat, |i:int| None::<T>)
    { unimplemented!() }
}

pub struct Join<T, const N: usize> {
    pub consumed: bool,
    pub pending: usize,
    pub items: OutputArray<T, N>,
    pub wakers: WakerArray<N>,
    pub state: [PollState; N],
    pub futures: FutureArray<T, N>,
}

pub open spec fn core_f<T, const N: usize>(state: Seq<PollState>, live: Seq<bool>, v: Seq<Option<T>>, pending: usize, consumed: bool) -> bool {
        &&& live.len() == N
        &&& v.len() == N
        &&& state.len() == N
        &&& !consumed ==> {
            &&& forall|i:int| 0 <= i < N ==> (state[i] is Pending <==> #[trigger] live[i])
            &&& forall|i:int| 0 <= i < N ==> (state[i] is Ready <==> #[trigger] v[i] is Some)
            &&& forall|i:int| 0 <= i < N ==> !(#[trigger] state[i] is None)
            &&& pending as nat == count_true(live)
        }
}
impl<T, const N: usize> Join<T, N> {
    pub open spec fn core(&self) -> bool { core_f::<T,N>(self.state@, self.futures.live@, self.items.v@, self.pending, self.consumed) }
    pub open spec fn inv(&self) -> bool { self.core() && self.wakers.shared.wf() }

    fn poll(&mut self) -> (r: Poll<[T; N]>)
        requires old(self).inv(), !old(self).consumed, !old(self).wakers.shared.held@
        ensures final(self).inv(),
            r is Pending ==> !final(self).consumed && forall|i:int| 0 <= i < N && final(self).futures.live@[i] && #[trigger] final(self).wakers.shared.bits()[i] ==> final(self).wakers.shared.woken@,
            r is Ready ==> final(self).consumed,
    {
        let this = self;

        assert!(
            !this.consumed,
            "Futures must not be polled after completing"
        );

        this.wakers.lock();
        this.wakers.shared.set_waker();
        if this.pending != 0 && !this.wakers.shared.any_ready() {
            // Nothing is ready yet
            return Poll::Pending;
        }

        // Poll all ready futures
        for i in 0..N
            invariant this.core(), !this.consumed, this.wakers.shared.wf(), this.wakers.shared.held@,
              forall|j:int| 0 <= j < i && this.futures.live@[j] && #[trigger] this.wakers.shared.bits()[j] ==> this.wakers.shared.woken@,
        {
            if this.state[i].is_pending() && this.wakers.shared.clear_ready(i) {
                // unlock readiness so we don't deadlock when polling
                this.wakers.unlock();

                // Poll the future
                if let Poll::Ready(value) = this.futures.poll_child(i, &mut this.wakers) {
                    this.items.write(i, value);
                    this.state[i].set_ready();
                    proof { lemma_count_true_update(this.futures.live@, i as int); }
                    this.pending -= 1;
                    this.futures.drop_child(i);
                }

                // Lock readiness so we can use it again
                this.wakers.lock();
            }
        }

        // Check whether we're all done now or need to keep going.
        if this.pending == 0 {
            // Mark all data as "consumed" before we take it
            this.consumed = true;
            proof { lemma_count_true_zero(this.futures.live@);
                assert forall|i:int| 0 <= i < N implies #[trigger] this.items.v@[i] is Some by {
                    assert(!this.futures.live@[i]);
                    assert(!(this.state[i] is None));
                }
            }
            for state in this.state.iter_mut()
                invariant this.items.v@.len() == N, forall|i:int| 0 <= i < N ==> #[trigger] this.items.v@[i] is Some,
            {
                state.set_none();
            }
            Poll::Ready(unsafe { this.items.take() })
        } else {
            Poll::Pending
        }
    }
}

pub proof fn lemma_count_true_update(s: Seq<bool>, i: int)
    requires 0 <= i < s.len(), s[i]
    ensures count_true(s.update(i, false)) + 1 == count_true(s)
    decreases s.len()
{
    if i == s.len() - 1 {
        assert(s.update(i, false).drop_last() =~= s.drop_last());
    } else {
        lemma_count_true_update(s.drop_last(), i);
        assert(s.update(i, false).drop_last() =~= s.drop_last().update(i, false));
    }
}
pub proof fn lemma_count_true_zero(s: Seq<bool>)
    requires count_true(s) == 0
    ensures forall|i:int| 0 <= i < s.len() ==> !s[i]
    decreases s.len()
{
    if s.len() > 0 { lemma_count_true_zero(s.drop_last()); assert forall|i:int| 0 <= i < s.len() implies !s[i] by { if i < s.len() - 1 { assert(s.drop_last()[i] == s[i]); } } }
}
}
fn main() {}
