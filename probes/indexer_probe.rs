use vstd::prelude::*;
use core::ops;
verus! {

pub assume_specification[ usize::wrapping_rem ](x: usize, y: usize) -> (r: usize)
    requires y != 0,
    ensures r == x % y;

pub(crate) struct Indexer {
    offset: usize,
    max: usize,
}

pub(crate) struct IndexIter {
    iter: ops::Range<usize>,
    offset: usize,
}

impl Indexer {
    pub(crate) fn new(max: usize) -> (r: Self)
        ensures r.offset == 0, r.max == max
    {
        Self { offset: 0, max }
    }

    pub(crate) fn iter(&mut self) -> (r: IndexIter)
        requires old(self).max > 0, old(self).offset < old(self).max,
        ensures final(self).max == old(self).max,
            final(self).offset == (old(self).offset + 1) % (old(self).max as int),
            r.offset == old(self).offset, r.iter.start == 0, r.iter.end == old(self).max,
    {
        // Increment the starting point for next time.
        let offset = self.offset;
        self.offset = (self.offset + 1).wrapping_rem(self.max);

        IndexIter {
            iter: (0..self.max),
            offset,
        }
    }
}

impl IndexIter {
    fn next(&mut self) -> (r: Option<usize>)
        requires old(self).iter.end > 0, old(self).offset < old(self).iter.end, old(self).iter.start <= old(self).iter.end
        ensures 
            final(self).iter.end == old(self).iter.end, final(self).offset == old(self).offset,
            old(self).iter.start < old(self).iter.end ==> r == Some(((old(self).iter.start + old(self).offset) % (old(self).iter.end as int)) as usize) && final(self).iter.start == old(self).iter.start + 1,
            old(self).iter.start >= old(self).iter.end ==> r.is_none() && final(self).iter.start == old(self).iter.start,
    {
        self.iter
            .next()
            .map(|pos| (pos + self.offset).wrapping_rem(self.iter.end))
    }
}
}
fn main() {}
