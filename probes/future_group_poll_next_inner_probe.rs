use vstd::prelude::*;
use core::task::Poll;
verus! {

pub assume_specification<T> [core::mem::drop] (_0: T);

#[verifier::external_type_specification]
#[verifier::accept_recursive_types(T)]
pub struct ExPoll<T>(core::task::Poll<T>);

#[derive(Debug, Clone, Copy)]
#[repr(u8)]
pub enum PollState { None, Pending, Ready }

impl PollState {
    pub fn is_pending(&self) -> (r: bool) ensures r == (*self is Pending) { matches!(self, Self::Pending) }
    pub fn is_ready(&self) -> (r: bool) ensures r == (*self is Ready) { matches!(self, Self::Ready) }
    pub fn set_ready(&mut self) ensures *final(self) == PollState::Ready { *self = PollState::Ready; }
    pub fn is_none(&self) -> (r: bool) ensures r == (*self is None) { matches!(self, Self::None) }
    pub fn set_none(&mut self) ensures *final(self) == PollState::None { *self = PollState::None; }
}

// ---------- readiness (would be the verbatim verified struct) -----------
pub struct ReadinessArray<const N: usize> {
    pub count: usize,
    pub readiness_list: [bool; N],
    pub held: Ghost<bool>,
    pub woken: Ghost<bool>,   // parent waker (current) woken since set_waker
}
pub open spec fn count_true(s: Seq<bool>) -> nat decreases s.len()
{ if s.len() == 0 { 0 } else { count_true(s.drop_last()) + if s.last() { 1nat } else { 0nat } } }

impl<const N: usize> ReadinessArray<N> {
    pub open spec fn wf(&self) -> bool { self.count as nat == count_true(self.readiness_list@) }
    pub open spec fn bits(&self) -> Seq<bool> { self.readiness_list@ }
    #[verifier::external_body]
    pub fn any_ready(&self) -> (r: bool) requires self.wf() ensures r == exists|i:int| 0 <= i < N && self.bits()[i] { unimplemented!() }
    #[verifier::external_body]
    pub fn clear_ready(&mut self, id: usize) -> (r: bool)
        requires old(self).wf(), id < N
        ensures final(self).wf(), r == old(self).bits()[id as int], final(self).bits() == old(self).bits().update(id as int, false),
           final(self).held == old(self).held, final(self).woken == old(self).woken
    { unimplemented!() }
    #[verifier::external_body]
    pub fn set_ready(&mut self, id: usize) -> (r: bool)
        requires old(self).wf(), id < N
        ensures final(self).wf(), r == old(self).bits()[id as int], final(self).bits() == old(self).bits().update(id as int, true),
           final(self).held == old(self).held, final(self).woken == old(self).woken
    { unimplemented!() }
    #[verifier::external_body]
    pub fn set_waker(&mut self)
        requires old(self).wf()
        ensures final(self).wf(), final(self).bits() == old(self).bits(), final(self).held == old(self).held, final(self).woken@ == false
    { unimplemented!() }
}
#[verifier::external_body]
pub fn release<const N: usize>(r: &mut ReadinessArray<N>)
    ensures final(r).bits() == old(r).bits(), final(r).wf() == old(r).wf(), final(r).held@ == false, final(r).woken == old(r).woken
{ unimplemented!() }

pub open spec fn superset(a: Seq<bool>, b: Seq<bool>) -> bool {
    a.len() == b.len() && forall|i: int| 0 <= i < a.len() ==> (a[i] ==> b[i])
}

pub struct WakerArray<const N: usize> { pub shared: ReadinessArray<N> }
impl<const N: usize> WakerArray<N> {
    #[verifier::external_body]
    pub fn lock(&mut self)
        requires !old(self).shared.held@, old(self).shared.wf()
        ensures final(self).shared.wf(), final(self).shared.held@, superset(old(self).shared.bits(), final(self).shared.bits()),
           (final(self).shared.bits() != old(self).shared.bits()) ==> final(self).shared.woken@,
           old(self).shared.woken@ ==> final(self).shared.woken@,
    { unimplemented!() }
    #[verifier::external_body]
    pub fn unlock(&mut self)
        requires old(self).shared.held@
        ensures final(self).shared.wf() == old(self).shared.wf(), final(self).shared.bits() == old(self).shared.bits(), !final(self).shared.held@, final(self).shared.woken == old(self).shared.woken
    { unimplemented!() }
}

pub proof fn lemma_count_true_update(s: Seq<bool>, i: int)
    requires 0 <= i < s.len(), s[i]
    ensures count_true(s.update(i, false)) + 1 == count_true(s)
    decreases s.len()
{
    if i == s.len() - 1 {
        assert(s.update(i, false).drop_last() =~= s.drop_last());
    } else {
        lemma_count_true_update(s.drop_last(), i);
        assert(s.update(i, false).drop_last() =~= s.drop_last().update(i, false));
    }
}
pub proof fn lemma_count_true_zero(s: Seq<bool>)
    requires count_true(s) == 0
    ensures forall|i:int| 0 <= i < s.len() ==> !s[i]
    decreases s.len()
{
    if s.len() > 0 { lemma_count_true_zero(s.drop_last()); assert forall|i:int| 0 <= i < s.len() implies !s[i] by { if i < s.len() - 1 { assert(s.drop_last()[i] == s[i]); } } }
}
// ---------- group members (slab model) -------------
pub struct Slab<T> { pub dom: Ghost<Set<int>>, pub npolls: Ghost<nat>, pub _t: core::marker::PhantomData<T> }
impl<T> Slab<T> {
    #[verifier::external_body]
    pub fn is_empty(&self) -> (r: bool) ensures r == (self.dom@.len() == 0) { unimplemented!() }
    #[verifier::external_body]
    pub fn poll_member<const N: usize>(&mut self, i: usize, w: &mut WakerArray<N>) -> (r: Poll<T>)
        requires old(self).dom@.contains(i as int), !old(w).shared.held@, old(w).shared.wf()
        ensures final(self).dom == old(self).dom, final(self).npolls@ == old(self).npolls@ + 1,
           final(w).shared.wf(), !final(w).shared.held@, superset(old(w).shared.bits(), final(w).shared.bits()),
           (final(w).shared.bits() != old(w).shared.bits()) ==> final(w).shared.woken@,
           old(w).shared.woken@ ==> final(w).shared.woken@,
    { unimplemented!() }
    #[verifier::external_body]
    pub fn remove(&mut self, i: usize)
        requires old(self).dom@.contains(i as int)
        ensures final(self).dom@ == old(self).dom@.remove(i as int), final(self).npolls == old(self).npolls
    { unimplemented!() }
}
pub struct KeySet { pub set: Ghost<Set<int>> }
impl KeySet {
    #[verifier::external_body]
    pub fn ascending(&self) -> (r: Vec<usize>)
        ensures forall|k:int| 0 <= k < r@.len() ==> self.set@.contains(#[trigger] r@[k] as int),
                forall|x:int| self.set@.contains(x) ==> exists|k:int| 0 <= k < r@.len() && #[trigger] r@[k] as int == x,
    { unimplemented!() }
    #[verifier::external_body]
    pub fn remove(&mut self, k: &usize) -> (r: bool)
        ensures final(self).set@ == old(self).set@.remove(*k as int), r == old(self).set@.contains(*k as int)
    { unimplemented!() }
}
pub struct Key(pub usize);
pub open spec fn yielded<T>(r: Poll<Option<(Key,T)>>) -> Option<int> { match r { Poll::Ready(Some((k, _))) => Some(k.0 as int), _ => None } }

pub struct FutureGroup<T, const N: usize> {
    pub futures: Slab<T>,
    pub wakers: WakerArray<N>,
    pub states: [PollState; N],
    pub keys: KeySet,
    pub capacity: usize,
}

pub open spec fn gcore<const N: usize>(states: Seq<PollState>, dom: Set<int>, keys: Set<int>) -> bool {
    &&& states.len() == N
    &&& dom.finite()
    &&& forall|i:int| dom.contains(i) ==> 0 <= i < N
    &&& forall|i:int| 0 <= i < N ==> ((#[trigger] states[i] is Pending) <==> dom.contains(i))
}

impl<T, const N: usize> FutureGroup<T, N> {
    pub open spec fn inv(&self) -> bool {
        gcore::<N>(self.states@, self.futures.dom@, self.keys.set@) && self.keys.set@ == self.futures.dom@ && self.wakers.shared.wf()
    }

    fn poll_next_inner(&mut self) -> (r: Poll<Option<(Key, T)>>)
        requires old(self).inv(), !old(self).wakers.shared.held@,
        ensures final(self).inv(),
            r == Poll::Ready(None::<(Key, T)>) <==> old(self).futures.dom@.len() == 0,
            r is Pending ==> final(self).futures.dom@ == old(self).futures.dom@
               && forall|i:int| final(self).futures.dom@.contains(i) && #[trigger] final(self).wakers.shared.bits()[i] ==> final(self).wakers.shared.woken@,
            yielded(r) is Some ==> old(self).futures.dom@.contains(yielded(r)->0)
               && final(self).futures.dom@ == old(self).futures.dom@.remove(yielded(r)->0),
    {
        // Short-circuit if we have no futures to iterate over
        if self.futures.is_empty() {
            return Poll::Ready(None);
        }

        // Set the top-level waker and check readiness
        self.wakers.lock();
        self.wakers.shared.set_waker();
        if !self.wakers.shared.any_ready() {
            // Nothing is ready yet
            return Poll::Pending;
        }

        // Setup our futures state
        let mut ret = Poll::Pending;

        let ks = self.keys.ascending();
        let mut kk: usize = 0;
        while kk < ks.len()
            invariant_except_break
              gcore::<N>(self.states@, self.futures.dom@, self.keys.set@), self.keys.set@ == self.futures.dom@, self.keys.set@ == old(self).keys.set@,
              self.wakers.shared.wf(), self.wakers.shared.held@, ret is Pending, kk <= ks@.len(), old(self).keys.set@ == old(self).futures.dom@,
              forall|k:int| 0 <= k < ks@.len() ==> self.keys.set@.contains(#[trigger] ks@[k] as int),
              forall|x:int| self.keys.set@.contains(x) ==> exists|k:int| 0 <= k < ks@.len() && #[trigger] ks@[k] as int == x,
              forall|k:int| 0 <= k < kk && #[trigger] self.wakers.shared.bits()[ks@[k] as int] ==> self.wakers.shared.woken@,
            ensures
              gcore::<N>(self.states@, self.futures.dom@, self.keys.set@), self.wakers.shared.wf(),
              ret is Pending ==> self.keys.set@ == self.futures.dom@ && self.keys.set@ == old(self).keys.set@ && kk == ks@.len()
                 && (forall|k:int| 0 <= k < kk && #[trigger] self.wakers.shared.bits()[ks@[k] as int] ==> self.wakers.shared.woken@)
                 && (forall|x:int| self.keys.set@.contains(x) ==> exists|k:int| 0 <= k < ks@.len() && #[trigger] ks@[k] as int == x),
              ret is Ready ==> yielded(ret) is Some && old(self).keys.set@.contains(yielded(ret)->0)
                 && self.keys.set@ == old(self).keys.set@ && self.futures.dom@ =~= old(self).futures.dom@.remove(yielded(ret)->0),
            decreases ks@.len() - kk
        {
            let index = ks[kk];
            kk += 1;
            if self.states[index].is_pending() && self.wakers.shared.clear_ready(index) {
                // unlock readiness so we don't deadlock when polling
                self.wakers.unlock();

                match self.futures.poll_member(index, &mut self.wakers) {
                    Poll::Ready(item) => {
                        // Set the return type for the function
                        ret = Poll::Ready(Some((Key(index), item)));

                        // Remove all associated data with the future
                        // The only data we can't remove directly is the key entry.
                        self.states[index] = PollState::None;
                        self.futures.remove(index);

                        break;
                    }
                    // Keep looping if there is nothing for us to do
                    Poll::Pending => {}
                };

                // Lock readiness so we can use it again
                self.wakers.lock();
            }
        }

        // Now that we're no longer borrowing `this.keys` we can remove
        // the current key from the set
        if let Poll::Ready(Some((key, _))) = &ret {
            self.keys.remove(&key.0);
        }

        ret
    }
}
}
fn main() {}
