use vstd::prelude::*;
verus! {
pub open spec fn count_true(s: Seq<bool>) -> nat decreases s.len()
{ if s.len() == 0 { 0 } else { count_true(s.drop_last()) + if s.last() { 1nat } else { 0nat } } }

// model waker token + ghost sink for parent wake events
pub struct Waker { pub id: Ghost<int> }
pub struct Env { pub wake_cnt: Ghost<Map<int, nat>> }
impl Waker {
    #[verifier::external_body]
    pub fn wake_by_ref(&self, Tracked(env): Tracked<&mut Env>)
        ensures final(env).wake_cnt@ == old(env).wake_cnt@.insert(self.id@, (if old(env).wake_cnt@.dom().contains(self.id@) { old(env).wake_cnt@[self.id@] } else { 0 }) + 1)
    { unimplemented!() }
}

pub struct ReadinessArray<const N: usize> {
    pub count: usize,
    pub readiness_list: [bool; N],
    pub parent_waker: Option<Waker>,
}
impl<const N: usize> ReadinessArray<N> {
    pub open spec fn wf(&self) -> bool { self.count as nat == count_true(self.readiness_list@) }
    #[verifier::external_body]
    pub fn set_ready(&mut self, id: usize) -> (r: bool)
        requires old(self).wf(), id < N
        ensures final(self).wf(), r == old(self).readiness_list@[id as int], final(self).readiness_list@ == old(self).readiness_list@.update(id as int, true),
            final(self).parent_waker == old(self).parent_waker
    { unimplemented!() }
    pub fn parent_waker(&self) -> (r: Option<&Waker>)
        ensures r == match self.parent_waker { Some(w) => Some(&w), None => None }
    {
        self.parent_waker.as_ref()
    }
}

pub struct InlineWakerArray<const N: usize> { pub id: usize }

pub open spec fn cnt(m: Map<int,nat>, k: int) -> nat { if m.dom().contains(k) { m[k] } else { 0 } }

impl<const N: usize> InlineWakerArray<N> {
    // real text: fn wake(self: Arc<Self>) { let mut readiness = self.readiness.lock().unwrap(); if !readiness.set_ready(self.id) { readiness.parent_waker().expect("..").wake_by_ref() } }
    pub fn wake(&self, readiness: &mut ReadinessArray<N>, Tracked(env): Tracked<&mut Env>)
        requires old(readiness).wf(), self.id < N, old(readiness).parent_waker is Some,
        ensures final(readiness).wf(),
            final(readiness).readiness_list@ == old(readiness).readiness_list@.update(self.id as int, true),
            final(readiness).parent_waker == old(readiness).parent_waker,
            !old(readiness).readiness_list@[self.id as int] ==> cnt(final(env).wake_cnt@, old(readiness).parent_waker->0.id@) == cnt(old(env).wake_cnt@, old(readiness).parent_waker->0.id@) + 1,
            old(readiness).readiness_list@[self.id as int] ==> final(env).wake_cnt@ == old(env).wake_cnt@,
    {
        if !readiness.set_ready(self.id) {
            readiness
                .parent_waker()
                .expect("`parent_waker` not available from `Readiness`. Did you forget to call `Readiness::set_waker`?")
                .wake_by_ref(Tracked(env))
        }
    }
}
}
fn main() {}
