use vstd::prelude::*;
use core::task::Poll;
verus! {

pub assume_specification<T> [core::mem::drop] (_0: T);

#[verifier::external_type_specification]
#[verifier::accept_recursive_types(T)]
pub struct ExPoll<T>(core::task::Poll<T>);

#[derive(Debug, Clone, Copy)]
#[repr(u8)]
pub enum PollState { None, Pending, Ready }

impl PollState {
    pub fn is_pending(&self) -> (r: bool) ensures r == (*self is Pending) { matches!(self, Self::Pending) }
    pub fn is_ready(&self) -> (r: bool) ensures r == (*self is Ready) { matches!(self, Self::Ready) }
    pub fn set_ready(&mut self) ensures *final(self) == PollState::Ready { *self = PollState::Ready; }
    pub fn is_none(&self) -> (r: bool) ensures r == (*self is None) { matches!(self, Self::None) }
    pub fn set_none(&mut self) ensures *final(self) == PollState::None { *self = PollState::None; }
}

// ---------- readiness (would be the verbatim verified struct) -----------
pub struct ReadinessArray<const N: usize> {
    pub count: usize,
    pub readiness_list: [bool; N],
    pub held: Ghost<bool>,
    pub woken: Ghost<bool>,   // parent waker (current) woken since set_waker
}
pub open spec fn count_true(s: Seq<bool>) -> nat decreases s.len()
{ if s.len() == 0 { 0 } else { count_true(s.drop_last()) + if s.last() { 1nat } else { 0nat } } }

impl<const N: usize> ReadinessArray<N> {
    pub open spec fn wf(&self) -> bool { self.count as nat == count_true(self.readiness_list@) }
    pub open spec fn bits(&self) -> Seq<bool> { self.readiness_list@ }
    #[verifier::external_body]
    pub fn any_ready(&self) -> (r: bool) requires self.wf() ensures r == exists|i:int| 0 <= i < N && self.bits()[i] { unimplemented!() }
    #[verifier::external_body]
    pub fn clear_ready(&mut self, id: usize) -> (r: bool)
        requires old(self).wf(), id < N
        ensures final(self).wf(), r == old(self).bits()[id as int], final(self).bits() == old(self).bits().update(id as int, false),
           final(self).held == old(self).held, final(self).woken == old(self).woken
    { unimplemented!() }
    #[verifier::external_body]
    pub fn set_ready(&mut self, id: usize) -> (r: bool)
        requires old(self).wf(), id < N
        ensures final(self).wf(), r == old(self).bits()[id as int], final(self).bits() == old(self).bits().update(id as int, true),
           final(self).held == old(self).held, final(self).woken == old(self).woken
    { unimplemented!() }
    #[verifier::external_body]
    pub fn set_waker(&mut self)
        requires old(self).wf()
        ensures final(self).wf(), final(self).bits() == old(self).bits(), final(self).held == old(self).held, final(self).woken@ == false
    { unimplemented!() }
}
#[verifier::external_body]
pub fn release<const N: usize>(r: &mut ReadinessArray<N>)
    ensures final(r).bits() == old(r).bits(), final(r).wf() == old(r).wf(), final(r).held@ == false, final(r).woken == old(r).woken
{ unimplemented!() }

pub open spec fn superset(a: Seq<bool>, b: Seq<bool>) -> bool {
    a.len() == b.len() && forall|i: int| 0 <= i < a.len() ==> (a[i] ==> b[i])
}

pub struct WakerArray<const N: usize> { pub shared: ReadinessArray<N> }
impl<const N: usize> WakerArray<N> {
    #[verifier::external_body]
    pub fn lock(&mut self)
        requires !old(self).shared.held@, old(self).shared.wf()
        ensures final(self).shared.wf(), final(self).shared.held@, superset(old(self).shared.bits(), final(self).shared.bits()),
           (final(self).shared.bits() != old(self).shared.bits()) ==> final(self).shared.woken@,
           old(self).shared.woken@ ==> final(self).shared.woken@,
    { unimplemented!() }
    #[verifier::external_body]
    pub fn unlock(&mut self)
        requires old(self).shared.held@
        ensures final(self).shared.wf() == old(self).shared.wf(), final(self).shared.bits() == old(self).shared.bits(), !final(self).shared.held@, final(self).shared.woken == old(self).shared.woken
    { unimplemented!() }
}

pub proof fn lemma_count_true_update(s: Seq<bool>, i: int)
    requires 0 <= i < s.len(), s[i]
    ensures count_true(s.update(i, false)) + 1 == count_true(s)
    decreases s.len()
{
    if i == s.len() - 1 {
        assert(s.update(i, false).drop_last() =~= s.drop_last());
    } else {
        lemma_count_true_update(s.drop_last(), i);
        assert(s.update(i, false).drop_last() =~= s.drop_last().update(i, false));
    }
}
pub proof fn lemma_count_true_zero(s: Seq<bool>)
    requires count_true(s) == 0
    ensures forall|i:int| 0 <= i < s.len() ==> !s[i]
    decreases s.len()
{
    if s.len() > 0 { lemma_count_true_zero(s.drop_last()); assert forall|i:int| 0 <= i < s.len() implies !s[i] by { if i < s.len() - 1 { assert(s.drop_last()[i] == s[i]); } } }
}
// ---------- children (streams) -------------
pub struct Streams<T, const N: usize> { pub live: Ghost<Seq<bool>>, pub npolls: Ghost<nat>, pub _t: core::marker::PhantomData<T> }
impl<T, const N: usize> Streams<T, N> {
    #[verifier::external_body]
    pub fn poll_next_child(&mut self, i: usize, w: &mut WakerArray<N>) -> (r: Poll<Option<T>>)
        requires i < N, old(self).live@.len() == N, old(self).live@[i as int], !old(w).shared.held@, old(w).shared.wf()
        ensures final(self).live@ == (if r == Poll::Ready(None::<T>) { old(self).live@.update(i as int, false) } else { old(self).live@ }),
           final(self).npolls@ == old(self).npolls@ + 1,
           final(w).shared.wf(), !final(w).shared.held@, superset(old(w).shared.bits(), final(w).shared.bits()),
           (final(w).shared.bits() != old(w).shared.bits()) ==> final(w).shared.woken@,
           old(w).shared.woken@ ==> final(w).shared.woken@,
    { unimplemented!() }
    #[verifier::external_body]
    pub fn len(&self) -> (r: usize) ensures r == N { unimplemented!() }
}

// ---------- indexer (contract as proved in the L1 unit) -------------
pub struct Indexer { pub offset: usize, pub max: usize }
pub struct IndexIter { pub pos: usize, pub end: usize, pub offset: usize }
impl Indexer {
    #[verifier::external_body]
    pub fn iter(&mut self) -> (r: IndexIter)
        requires old(self).max > 0, old(self).offset < old(self).max
        ensures final(self).max == old(self).max, final(self).offset == (old(self).offset + 1) % (old(self).max as int),
            r.pos == 0, r.end == old(self).max, r.offset == old(self).offset
    { unimplemented!() }
}
impl IndexIter {
    #[verifier::external_body]
    pub fn next(&mut self) -> (r: Option<usize>)
        requires old(self).end > 0, old(self).offset < old(self).end, old(self).pos <= old(self).end
        ensures final(self).end == old(self).end, final(self).offset == old(self).offset,
            old(self).pos < old(self).end ==> r == Some(((old(self).pos + old(self).offset) % (old(self).end as int)) as usize) && final(self).pos == old(self).pos + 1,
            old(self).pos >= old(self).end ==> r.is_none() && final(self).pos == old(self).pos
    { unimplemented!() }
}

pub open spec fn visited(offset: int, n: int, k: int, v: int) -> bool { exists|j:int| 0 <= j < k && #[trigger] ((offset + j) % n) == v }

pub proof fn lemma_all_visited(offset: int, n: int, v: int)
    requires 0 <= offset < n, 0 <= v < n
    ensures visited(offset, n, n, v)
{
    let j = if v >= offset { v - offset } else { v - offset + n };
    assert(0 <= j < n);
    assert((offset + j) % n == v) by {
        if v >= offset { assert(offset + j == v); vstd::arithmetic::div_mod::lemma_small_mod(v as nat, n as nat); }
        else { assert(offset + j == v + n); vstd::arithmetic::div_mod::lemma_mod_add_multiples_vanish(v, n); vstd::arithmetic::div_mod::lemma_small_mod(v as nat, n as nat); }
    }
}

pub struct Merge<T, const N: usize> {
    pub streams: Streams<T, N>,
    pub indexer: Indexer,
    pub wakers: WakerArray<N>,
    pub state: [PollState; N],
    pub complete: usize,
    pub done: bool,
}

pub open spec fn mcore<const N: usize>(state: Seq<PollState>, live: Seq<bool>, complete: usize) -> bool {
    &&& live.len() == N && state.len() == N
    &&& forall|i:int| 0 <= i < N ==> (!(state[i] is None) <==> #[trigger] live[i])
    &&& complete as nat + count_true(live) == N
}

impl<T, const N: usize> Merge<T, N> {
    pub open spec fn inv(&self) -> bool {
        mcore::<N>(self.state@, self.streams.live@, self.complete) && self.wakers.shared.wf()
        && self.indexer.max == N && (N > 0 ==> self.indexer.offset < N)
    }

    fn poll_next(&mut self) -> (r: Poll<Option<T>>)
        requires old(self).inv(), !old(self).wakers.shared.held@, N > 0, N < 0x7fff_ffff_ffff_ffff,
        ensures final(self).inv(),
            final(self).indexer.offset == (old(self).indexer.offset + 1) % (N as int),
            r is Pending ==> forall|i:int| 0 <= i < N && final(self).streams.live@[i] && #[trigger] final(self).wakers.shared.bits()[i] ==> final(self).wakers.shared.woken@,
            r == Poll::Ready(None::<T>) ==> final(self).complete == N,
    {

        self.wakers.lock();
        self.wakers.shared.set_waker();

        let ghost off = self.indexer.offset as int;
        let mut it = self.indexer.iter();
        proof { vstd::arithmetic::div_mod::lemma_mod_bound(off + 1, N as int); }
        loop
            invariant_except_break mcore::<N>(self.state@, self.streams.live@, self.complete), self.wakers.shared.wf(), self.wakers.shared.held@,
              self.indexer.max == N, self.indexer.offset == (off + 1) % (N as int), self.indexer.offset < N, off == old(self).indexer.offset, N > 0, N < 0x7fff_ffff_ffff_ffff,
              it.end == N, it.offset == off, 0 <= off < N, it.pos <= N,
              forall|v:int| 0 <= v < N && visited(off, N as int, it.pos as int, v) && self.streams.live@[v] && #[trigger] self.wakers.shared.bits()[v] ==> self.wakers.shared.woken@,
            ensures it.pos == N, mcore::<N>(self.state@, self.streams.live@, self.complete), self.wakers.shared.wf(), self.wakers.shared.held@,
              self.indexer.max == N, self.indexer.offset == (off + 1) % (N as int),
              forall|v:int| 0 <= v < N && visited(off, N as int, it.pos as int, v) && self.streams.live@[v] && #[trigger] self.wakers.shared.bits()[v] ==> self.wakers.shared.woken@,
            decreases N - it.pos
        {
            let index = match it.next() { Some(i) => i, None => { break; } };
            let ghost k = (it.pos - 1) as int;
            assert(index == (off + k) % (N as int));
            assert(index < N) by { vstd::arithmetic::div_mod::lemma_mod_bound(off + k, N as int); }
            if !self.wakers.shared.any_ready() {
                // Nothing is ready yet
                return Poll::Pending;
            } else if !self.wakers.shared.clear_ready(index) || self.state[index].is_none() {
                continue;
            }

            // unlock readiness so we don't deadlock when polling
            self.wakers.unlock();

            let ghost live0 = self.streams.live@;
            match self.streams.poll_next_child(index, &mut self.wakers) {
                Poll::Ready(Some(item)) => {
                    // Mark ourselves as ready again because we need to poll for the next item.
                    self.wakers.lock(); self.wakers.shared.set_ready(index); self.wakers.unlock();
                    return Poll::Ready(Some(item));
                }
                Poll::Ready(None) => {
                    proof { lemma_count_true_update(live0, index as int); }
                    self.complete += 1;
                    self.state[index].set_none();
                    if self.complete == self.streams.len() {
                        return Poll::Ready(None);
                    }
                }
                Poll::Pending => {}
            }

            // Lock readiness so we can use it again
            self.wakers.lock();
        }
        proof {
            assert forall|i:int| 0 <= i < N && self.streams.live@[i] && #[trigger] self.wakers.shared.bits()[i] implies self.wakers.shared.woken@ by {
                lemma_all_visited(off, N as int, i);
            }
        }
        Poll::Pending
    }
}
}
fn main() {}
