use vstd::prelude::*;
verus! {
pub enum ConsumerState { Break, Continue, Empty }

// model of the downstream consumer: counts forwarded futures
pub struct Inner { pub forwarded: Ghost<nat> }
impl Inner {
    #[verifier::external_body]
    pub async fn send(&mut self, future: u64) -> (r: ConsumerState)
        ensures final(self).forwarded@ == old(self).forwarded@ + 1
    { unimplemented!() }
}

pub struct TakeConsumer { pub inner: Inner, pub count: usize, pub limit: usize, pub broken: Ghost<bool> }

impl TakeConsumer {
    pub open spec fn inv(&self) -> bool {
        &&& self.inner.forwarded@ == self.count
        &&& self.count <= self.limit            // never more than `limit` items forwarded  (C15)
        &&& !self.broken@ ==> self.count < self.limit
    }

    // Take::drive's construction site: TakeConsumer { inner: consumer, count: 0, limit: self.limit }
    pub fn new(inner: Inner, limit: usize) -> (r: Self)
        requires inner.forwarded@ == 0,
        ensures r.inv(), !r.broken@,          // @OBL take.drive.TAKE_INIT props=C15
    {
        TakeConsumer { inner, count: 0, limit, broken: Ghost(false) }
    }

    pub async fn send(&mut self, future: u64) -> (r: ConsumerState)
        requires old(self).inv(), !old(self).broken@, old(self).count < usize::MAX
        ensures final(self).inv(), final(self).count >= final(self).limit ==> (r is Break) && final(self).broken@,
    {
        self.count += 1;
        let state = self.inner.send(future).await;
        if self.count >= self.limit {
            proof { self.broken@ = true; }
            ConsumerState::Break
        } else {
            state
        }
    }
}
}
fn main() {}
