setup:
	@python3 -c "import sys; sys.path.insert(0,'/verif'); import vx.gen, vx.main, vx.check, vx.witness, vx.rules; print('vx ok')"
	@verus --version >/dev/null && echo "verus ok"
	@chmod +x /verif/vx.sh
	@# optional pre-builds (everything below is rebuilt on demand by the checks if missing)
	@cd /verif/witness && CARGO_NET_OFFLINE=true CARGO_TARGET_DIR=/var/tmp/vx-witness-target cargo build --offline --release >/dev/null 2>&1 && echo "witness (std) built" || echo "witness (std) not pre-built: built on demand"
	@cd /verif/witness/nostd && CARGO_NET_OFFLINE=true CARGO_TARGET_DIR=/var/tmp/vx-witness-target cargo build --offline --release >/dev/null 2>&1 && echo "witness (alloc-only) built" || echo "witness (alloc-only) not pre-built: built on demand"
