setup:
	@python3 -c "import sys; sys.path.insert(0,'/verif'); import vx.gen, vx.main, vx.check; print('vx ok')"
	@verus --version >/dev/null && echo "verus ok"
	@chmod +x /verif/vx.sh
