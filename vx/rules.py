"""Named rewrite rules (DESIGN 2.2 / 2.3).  Each rule is a list of
(regex, replacement) pairs applied with re.S; the match counts of all pairs of
one rule are summed and compared with the count the unit requires."""

W = r'\s*'

RULES = {
    # N3 pin erasure ---------------------------------------------------------
    # `let [mut] this = self.project();` / `self.as_mut().project()` is removed,
    # `*this.f` -> `self.f`, `this` -> `self`.
    'N3_project': [
        (r'let\s+(?:mut\s+)?this\s*=\s*self(?:\.as_mut\(\))?\.project\(\);', ''),
    ],
    'N3_this': [
        (r'\*this\.(\w+)', r'self.\1'),
        (r'\bthis\b', 'self'),
    ],
    # N4 assert!/debug_assert! messages --------------------------------------
    'N4_assert_msg': [
        (r'\bassert!\(\s*([^,;]*?)\s*,\s*"[^"]*"\s*,?\s*\);', r'assert!(\1);'),
    ],
    'N4_debug_assert': [
        (r'\bdebug_assert!\(\s*([^;]*?)\s*(?:,\s*"[^"]*"\s*,?\s*)?\);', r'proof { assert(\1); }'),
    ],
    'N4_debug_assert_drop': [
        (r'\bdebug_assert!\(\s*[^;]*?\);', ''),
    ],
    # P3: `for state in self.state.iter_mut() { .. state.m() .. }` -> index loop (Verus gives no
    # post-state for iter_mut loops)
    'P3_state_iter_mut': [
        (lambda body: __import__('vx.rules', fromlist=['x']).iter_mut_to_index(body)),
    ],
    # P3: `for i in self.state.ready_indexes() { B }` -> `for i in 0..LEN { if self.state[i].is_ready() { B } }`
    # (ready_indexes = iter().cloned().enumerate().filter(|(_, s)| s.is_ready()).map(|(i, _)| i), poll_state/{array,vec}.rs)
    'P3_ready_indexes_N': [(lambda body: filter_loop(body, 'ready_indexes', 'is_ready', 'N'))],
    'P3_pending_indexes_N': [(lambda body: filter_loop(body, 'pending_indexes', 'is_pending', 'N'))],
    'P3_ready_indexes_len': [(lambda body: filter_loop(body, 'ready_indexes', 'is_ready', 'self.state.len()'))],
    'P3_pending_indexes_len': [(lambda body: filter_loop(body, 'pending_indexes', 'is_pending', 'self.state.len()'))],
    # P5 mutex guard elimination ----------------------------------------------
    'P5_lock_let': [
        (r'let\s+mut\s+readiness\s*=\s*self\.wakers\.readiness\(\);', 'self.wakers.lock();'),
    ],
    'P5_relock': [
        (r'\breadiness\s*=\s*self\.wakers\.readiness\(\);', 'self.wakers.lock();'),
    ],
    'P5_unlock': [
        (r'\bdrop\(readiness\);', 'self.wakers.unlock();'),
    ],
    'P5_guard_call': [
        (r'\breadiness\.(\w+)\(', r'self.wakers.\1('),
    ],
    'P5_temp_guard': [
        (r'self\.wakers\.readiness\(\)\.(\w+)\(([^;]*?)\);', r'self.wakers.lock(); self.wakers.\1(\2); self.wakers.unlock();'),
    ],
    # P6 context construction ---------------------------------------------------
    'P6_subcx': [
        (r'Context::from_waker\(self\.wakers\.get\((\w+)\)\.unwrap\(\)\)', r'self.wakers.sub_context(\1)'),
        # the same in two steps (e.g. the waker hoisted into a `let`)
        (r'self\.wakers\.get\(([^()]+)\)\.unwrap\(\)', r'self.wakers.sub_waker(\1)'),
        (r'Context::from_waker\(', 'SubCx::from_waker('),
    ],
    # P1 child poll through ManuallyDrop-wrapped pinned futures -----------------
    'P1_fut_poll_i': [
        (r'unsafe\s*\{\s*fut\.as_mut\(\)\s*\.map_unchecked_mut\(\|t\|\s*t\.deref_mut\(\)\)\s*\.poll\(&mut cx\)\s*\}',
         'self.futures.poll_child(i, &mut cx, &mut self.wakers)'),
    ],
    # P2 child drop
    'P2_mdrop_i': [
        (r'unsafe\s*\{\s*ManuallyDrop::drop\(fut\.get_unchecked_mut\(\)\)\s*\};', 'self.futures.drop_child(i);'),
    ],
    # P3 enumerate loops over the child container
    'P3_enum_array': [
        (r'for\s*\(i,\s*mut fut\)\s*in\s*self\.futures\.iter\(\)\.enumerate\(\)', 'for i in 0..N'),
    ],
    'P3_enum_vec': [
        (r'for\s*\(i,\s*mut fut\)\s*in\s*futures\.iter\(\)\.enumerate\(\)', 'let nf_ = self.futures.len(); for i in 0..nf_'),
    ],
    # join/try_join vec: `let futures = self.futures.as_mut(); let states = &mut self.state[..];` are
    # reborrows of fields; removed, `states[` -> `self.state[`
    'N_vec_lets': [
        (r'let\s+futures\s*=\s*self\.futures\.as_mut\(\);', ''),
        (r'let\s+states\s*=\s*&mut\s+self\.state\[\.\.\];', ''),
        (r'\bstates\[', 'self.state['),
    ],
    # `self.state.iter_mut().for_each(|state| { .. state.m() .. });` -> index loop
    'P3_state_for_each': [(lambda body: for_each_to_index(body))],
    # P4: unsafe { X } wrapper around output storage calls is kept as a plain block
    'P4_unsafe_block': [
        (r'unsafe\s*\{\s*(self\.items\.\w+\([^{};]*\))\s*\}', r'\1'),
    ],
}


import re as _re
from . import rustlex as _lex

# Global normalisations applied BEFORE a unit's own rules (so that the rules see one spelling):
GLOBAL_PRE_RULES = [
    # N9: formatting only -- a method chain broken over several lines by rustfmt is joined (`x\n    .m()` -> `x.m()`)
    ('G_N9_join_method_chain', r'\s*\n\s*\.(?=[A-Za-z_])', '.'),
    # N9: a redundant turbofish on collect (`.collect::<Vec<_>>()`): the target type is fixed by the binding / field it flows into
    ('G_N9_collect_turbofish', r'\.collect::<(?:[^<>()]|<[^<>()]*>)*>\(\)', '.collect()'),
]

# Global normalisations, applied to every extracted function after its own rules (vx/gen.py):
GLOBAL_RULES = [
    # N4: debug_assert!/debug_assert_eq!/debug_assert_ne! exist in debug builds only (DESIGN 2.2 N4): whatever a unit's own
    # N4 rule did not take is dropped
    ('G_N4_debug_assert_drop', r'\bdebug_assert(?:_eq|_ne)?!\(\s*[^;]*?\);', ''),
    # N6: PollArray/PollVec::set_all_none / set_all_pending are `self.fill(PollState::X)` (poll_state/{array,vec}.rs)
    ('G_N6_set_all_none', r'(\bself\.\w+)\.set_all_none\(\)', r'\1.fill(PollState::None)'),
    ('G_N6_set_all_pending', r'(\bself\.\w+)\.set_all_pending\(\)', r'\1.fill(PollState::Pending)'),
    # N8: Option::map_or with the Poll constructors as function values (Verus: "datatype constructor as a function value")
    # N5: core::task::ready!(E) is `match E { Poll::Ready(t) => t, Poll::Pending => return Poll::Pending }` (its definition)
    ('G_N5_ready_macro', lambda body: _g_ready(body), None),
    # P5: a temporary guard `self.wakers.readiness().m(args);` = lock; m; unlock (left over when a unit has no own rule)
    ('G_P5_temp_guard', r'self\.wakers\.readiness\(\)\.(\w+)\(([^;]*?)\);', r'self.wakers.lock(); self.wakers.\1(\2); self.wakers.unlock();'),
    # a waker invocation that is not the P10-ported parent wake of the waker units (e.g. a self-wake `cx.waker().wake_by_ref()`)
    ('G_wake_by_ref_plain', r'\.wake_by_ref\(\)', r'.wake_by_ref_plain()'),
    # Verus reports only the first failing pre-condition of a call: check the per-property groups separately (ghost)
    ('G_split_child_poll_preconditions',
     r'(self\.\w+)\.(poll_child|poll_next_child)\(([^,()]+), &mut cx, &mut self\.wakers\)',
     r'({ proof { \1.chk_sel(\3, &self.wakers); \1.chk_wake(\3, &cx, &self.wakers); \1.chk_own(\3); } \1.\2(\3, &mut cx, &mut self.wakers) })'),
    ('G_split_member_poll_preconditions',
     r'(self\.\w+)\.(poll_member|poll_next_member)\(([^,()]+), &mut cx, &mut self\.wakers\)',
     r'({ proof { \1.kids.chk_sel(\3, &self.wakers); \1.kids.chk_wake(\3, &cx, &self.wakers); \1.kids.chk_own(\3); } \1.\2(\3, &mut cx, &mut self.wakers) })'),
    ('G_N8_map_or_poll', r'\b(\w+)\.map_or\(\s*Poll::Pending\s*,\s*Poll::Ready\s*\)', r'(match \1 { Some(v_) => Poll::Ready(v_), None => Poll::Pending })'),
]


def iter_mut_to_index(body):
    m = _re.search(r'for\s+state\s+in\s+self\.state\.iter_mut\(\)\s*\{', body)
    if not m:
        return body, 0
    ob = m.end() - 1
    cb = _lex.match_close(_lex.mask(body), ob)
    inner = _re.sub(r'\bstate\.', 'self.state[k].', body[ob:cb + 1])
    return body[:m.start()] + 'for k in 0..N ' + inner + body[cb + 1:], 1


def filter_loop(body, method, pred, bound):
    m = _re.search(r'for\s+i\s+in\s+self\.state\.%s\(\)\s*\{' % method, body)
    if not m:
        return body, 0
    ob = m.end() - 1
    cb = _lex.match_close(_lex.mask(body), ob)
    inner = body[ob + 1:cb]
    pre = ''
    if bound != 'N':
        pre = 'let nb_ = %s; ' % bound
        bound = 'nb_'
    return body[:m.start()] + pre + 'for i in 0..%s { if self.state[i].%s() {%s} }' % (bound, pred, inner) + body[cb + 1:], 1


def for_each_to_index(body):
    m = _re.search(r'self\.state\.iter_mut\(\)\.for_each\(\|state\|\s*\{', body)
    if not m:
        return body, 0
    ob = m.end() - 1
    masked = _lex.mask(body)
    cb = _lex.match_close(masked, ob)
    m2 = _re.match(r'\s*\)\s*;', body[cb + 1:])
    if not m2:
        return body, 0
    inner = _re.sub(r'\bstate\.', 'self.state[k].', body[ob:cb + 1])
    return body[:m.start()] + 'let n_ = self.state.len(); for k in 0..n_ ' + inner + body[cb + 1 + m2.end():], 1


def _g_ready(body):
    n = 0
    while True:
        m = _re.search(r'\bready!\(', body)
        if not m:
            return body, n
        ob = m.end() - 1
        cb = _lex.match_close(_lex.mask(body), ob)
        inner = body[ob + 1:cb]
        body = body[:m.start()] + '(match %s { Poll::Ready(t_) => t_, Poll::Pending => { return Poll::Pending; } })' % inner + body[cb + 1:]
        n += 1


# extension modules vx/rules_*.py may define RULES (dict) to be merged (one file per author, no conflicts)
import glob as _glob, importlib as _il, os as _os
for _f in sorted(_glob.glob(_os.path.join(_os.path.dirname(__file__), 'rules_*.py'))):
    _m = _il.import_module('vx.' + _os.path.basename(_f)[:-3])
    for _k, _v in getattr(_m, 'RULES', {}).items():
        if _k in RULES:
            raise RuntimeError('duplicate rule name %s in %s' % (_k, _f))
        RULES[_k] = _v
