"""Rewrite rules for the compiler-expanded tuple impls (join/try_join/... tuple.rs).
Field letters A..L of the macro invocation map to positions 0..11 (the order of `$($F)+` in
`impl_*_tuple! { modN StructN A B .. }`, which is also the order of the tuple type `(A, B, ..)`)."""
import re
from . import rustlex as _lex

LETTERS = 'ABCDEFGHIJKL'


def pos(letter):
    return LETTERS.index(letter)


def _child_poll(body):
    # if let Poll::Ready(value) = unsafe { futures.X.as_mut().map_unchecked_mut(|t| t.deref_mut()).poll(&mut cx) }
    pat = re.compile(r'unsafe\s*\{\s*futures\.([A-L])\.as_mut\(\)\s*\.map_unchecked_mut\(\|t\|\s*t\.deref_mut\(\)\)\s*\.poll\(&mut cx\)\s*\}', re.S)
    n = 0

    def rep(m):
        nonlocal n
        n += 1
        return 'self.futures.poll_child(%d, &mut cx, &mut self.wakers)' % pos(m.group(1))
    return pat.sub(rep, body), n


def _child_drop(body):
    pat = re.compile(r'unsafe\s*\{\s*ManuallyDrop::drop\(futures\.([A-L])\.as_mut\(\)\.get_unchecked_mut\(\)\)\s*\};', re.S)
    n = 0

    def rep(m):
        nonlocal n
        n += 1
        return 'self.futures.drop_child(%d);' % pos(m.group(1))
    return pat.sub(rep, body), n


def _out_write(body):
    return re.subn(r'self\.outputs\.(\d+)\.write\(value\);', r'self.outputs.write(\1, value);', body)


def _take_block(body):
    """let out = { let mut out = (MaybeUninit::<..>::uninit(), ..); core::mem::swap(&mut out, self.outputs);
    let (A, B, ..) = out; unsafe { (A.assume_init(), B.assume_init(), ..) } };   =>   let out = self.outputs.take();
    The letters must appear in positional order in both the destructuring and the result tuple."""
    m = re.search(r'let out =\s*\{\s*let mut out =\s*\((?:\s*MaybeUninit::<[^()]*?>::uninit\(\),?)+\s*\);\s*core::mem::swap\(&mut out, self\.outputs\);\s*let \(([A-L, ]+?),?\) =\s*out;\s*unsafe\s*\{\s*\(((?:\s*[A-L]\.assume_init\(\),?)+)\s*\)\s*\}\s*\};', body, re.S)
    if not m:
        return body, 0
    d = [x.strip() for x in m.group(1).split(',') if x.strip()]
    r = re.findall(r'([A-L])\.assume_init\(\)', m.group(2))
    want = list(LETTERS[:len(d)])
    if d != want or r != want:
        return body, 0   # positional order differs: lost anchor (exit 2), never silently accepted
    return body[:m.start()] + 'let out = self.outputs.take();' + body[m.end():], 1


def _panic_assert(body):
    # if !COND { { ::core::panicking::panic_fmt(format_args!("..")); } };   =>  assert!(COND);
    return re.subn(r'if !(\w+)\s*\{\s*\{\s*::core::panicking::panic_fmt\(format_args!\("[^"]*"\)\);\s*\}\s*\};?', r'assert!(\1);', body, flags=re.S)


def range_for_to_while(body, var='index'):
    """`for VAR in 0..E { B }` => `let n_ = E; let mut VAR_ = 0; while VAR_ < n_ { let VAR = VAR_; VAR_ += 1; B }`
    (Verus for-loops do not support `continue`; incrementing first keeps `continue`'s meaning)."""
    m = re.search(r'for\s+%s\s+in\s+0\.\.([^{]+?)\s*\{' % var, body)
    if not m:
        return body, 0
    end = m.group(1).strip()
    return (body[:m.start()] + 'let n_ = %s; let mut %s_: usize = 0; while %s_ < n_ { let %s = %s_; %s_ += 1;' % (end, var, var, var, var, var)
            + body[m.end():]), 1


def _ordered(letters):
    return letters == list(LETTERS[:len(letters)])


def _drop_destructure(body):
    # let (ref mut A, ref mut B) = self.outputs;   (letters in positional order, else lost anchor)
    m = re.search(r'let \(((?:\s*ref mut [A-L],?)+)\s*\)\s*=\s*self\.outputs;', body)
    if not m:
        return body, 0
    ls = re.findall(r'ref mut ([A-L])', m.group(1))
    if not _ordered(ls):
        return body, 0
    return body[:m.start()] + body[m.end():], 1


def _assume_init_drop(body):
    n = 0

    def rep(m):
        nonlocal n
        n += 1
        return 'self.outputs.drop(%d);' % pos(m.group(1))
    return re.sub(r'unsafe\s*\{\s*([A-L])\.assume_init_drop\(\)\s*\};', rep, body), n


def _mdrop_field(body):
    n = 0

    def rep(m):
        nonlocal n
        n += 1
        return 'self.futures.drop_child(%d);' % pos(m.group(1))
    return re.sub(r'unsafe\s*\{\s*ManuallyDrop::drop\(&mut futures\.([A-L])\)\s*\};', rep, body), n


def _ctor_destructure(body):
    # let (A, B): (A, B) = self;
    m = re.search(r'let \(([A-L, ]+?),?\)\s*:\s*\(([A-L, ]+?),?\)\s*=\s*self;', body)
    if not m:
        return body, 0
    a = [x.strip() for x in m.group(1).split(',') if x.strip()]
    b = [x.strip() for x in m.group(2).split(',') if x.strip()]
    if not _ordered(a) or a != b:
        return body, 0
    return body[:m.start()] + body[m.end():], 1


def _ctor_futures(body):
    # modN::Futures { A: ManuallyDrop::new(A.into_future()), B: .. }  => Kids::wrap(futures)  (field X from variable X)
    m = re.search(r'\w+::Futures\s*\{((?:\s*[A-L]: ManuallyDrop::new\([A-L]\.into_future\(\)\),?)+)\s*\}', body)
    if not m:
        return body, 0
    prs = re.findall(r'([A-L]): ManuallyDrop::new\(([A-L])\.into_future\(\)\)', m.group(1))
    if not _ordered([p[0] for p in prs]) or any(p[0] != p[1] for p in prs):
        return body, 0
    return body[:m.start()] + 'Kids::wrap(futures)' + body[m.end():], 1


def _ctor_outputs(body):
    return re.subn(r'outputs:\s*\((?:\s*MaybeUninit::<[^()]*?>::uninit\(\),?)+\s*\)', 'outputs: OutputArray::uninit()', body, flags=re.S)


RULES = {
    'T_drop_destructure': [_drop_destructure],
    'T_assume_init_drop': [_assume_init_drop],
    'T_mdrop_field': [_mdrop_field],
    'T_ctor_destructure': [_ctor_destructure],
    'T_ctor_futures': [_ctor_futures],
    'T_ctor_outputs': [_ctor_outputs],
    'T_drop_prelude': [(r'fn __drop_inner\(\)\s*\{\s*\}', ''), (r'let this = __self\.project\(\);', ''), (r'\*this\.(\w+)', r'self.\1'), (r'\bthis\.', 'self.'),
                       (r'let states = self\.state;', ''), (r'let mut futures = self\.futures;', ''), (r'\bstates\[', 'self.state['),
                       (r'let futures =\s*unsafe\s*\{\s*futures\.as_mut\(\)\.get_unchecked_mut\(\)\s*\};', '')],
    'T_child_poll': [_child_poll],
    'T_child_drop': [_child_drop],
    'T_out_write': [_out_write],
    'T_take_block': [_take_block],
    'T_panic_assert': [_panic_assert],
    'T_for_index_while': [lambda b: range_for_to_while(b, 'index')],
    'T_futures_project': [(r'let\s+mut\s+futures\s*=\s*self\.futures\.project\(\);', '')],
    'T_state_set_all_none': [(r'self\.state\.set_all_none\(\);', 'self.state.fill(PollState::None);')],
    'T_state_set_all_pending': [(r'self\.state\.set_all_pending\(\);', 'self.state.fill(PollState::Pending);')],
}
