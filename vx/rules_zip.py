"""Rewrite rules for the zip units (units/zip_array.vx, units/zip_vec.vx).

Z_for_index_while   `for index in A..E { B }`  ->
                    `let mut index_: usize = A; let n_ = E; while index_ < n_ { let index = index_; index_ += 1; B }`
                    Verus `for` loops reject `continue`; the increment is done before B, so a
                    `continue` in B keeps its meaning (next index), and `index` is immutable in B
                    exactly as the `for` pattern binding is.  E is evaluated once, as for a Range.
Z_zip_drop_loop_N   `for (state, output) in self.state.iter_mut().zip(self.output.iter_mut()) { B }` ->
Z_zip_drop_loop_len `for k in 0..N { B' }` / `let nz_ = self.state.len(); for k in 0..nz_ { B' }` where B' is B with
                    `state.` -> `self.state[k].` and `unsafe { output.assume_init_drop() };` -> `self.output.drop(k);`
                    (lock-step zip of two slices = one running index; zip stops at the shorter one:
                    the bound is state's length and `output.drop(k)` carries the index obligation
                    S_DROP_INDEX, so a shorter output table is flagged rather than silently accepted).
"""
import re as _re
from . import rustlex as _lex


def _for_index_while(body):
    m = _re.search(r'\bfor\s+index\s+in\s+([^{};]+?)\s*\.\.(?![=.])\s*([^{};]+?)\s*\{', body)
    if not m:
        return body, 0
    ob = m.end() - 1
    cb = _lex.match_close(_lex.mask(body), ob)
    inner = body[ob + 1:cb]
    new = ('let mut index_: usize = %s; let n_ = %s;\n        while index_ < n_ {\n            let index = index_; index_ += 1;%s}'
           % (m.group(1), m.group(2), inner))
    return body[:m.start()] + new + body[cb + 1:], 1


def _zip_drop_loop(body, bound):
    m = _re.search(r'\bfor\s*\(\s*state\s*,\s*output\s*\)\s*in\s*self\.state\.iter_mut\(\)\s*\.zip\(\s*self\.output\.iter_mut\(\)\s*\)\s*\{', body)
    if not m:
        return body, 0
    ob = m.end() - 1
    cb = _lex.match_close(_lex.mask(body), ob)
    inner = body[ob:cb + 1]
    inner = _re.sub(r'unsafe\s*\{\s*output\.assume_init_drop\(\)\s*\}\s*;', 'self.output.drop(k);', inner)
    inner = _re.sub(r'\bstate\.', 'self.state[k].', inner)
    if _re.search(r'\boutput\b(?!\.drop\(k\))', inner.replace('self.output.drop(k)', '')):
        # some other use of the zipped `output` binding: not expressible as an index loop by this rule
        return body, 0
    pre = ''
    if bound != 'N':
        pre = 'let nz_ = %s; ' % bound
        bound = 'nz_'
    return body[:m.start()] + pre + 'for k in 0..%s ' % bound + inner + body[cb + 1:], 1


RULES = {
    'Z_for_index_while': [(lambda body: _for_index_while(body))],
    'Z_zip_drop_loop_N': [(lambda body: _zip_drop_loop(body, 'N'))],
    'Z_zip_drop_loop_len': [(lambda body: _zip_drop_loop(body, 'self.state.len()'))],
}
