"""Rewrite rules for the zip units (units/zip_array.vx, units/zip_vec.vx).

Z_for_index_while   `for index in A..E { B }`  ->
                    `let mut index_: usize = A; let n_ = E; while index_ < n_ { let index = index_; index_ += 1; B }`
                    Verus `for` loops reject `continue`; the increment is done before B, so a
                    `continue` in B keeps its meaning (next index), and `index` is immutable in B
                    exactly as the `for` pattern binding is.  E is evaluated once, as for a Range.
Z_zip_drop_loop_N   `for (state, output) in self.state.iter_mut().zip(self.output.iter_mut()) { B }` ->
Z_zip_drop_loop_len `for k in 0..N { B' }` / `let nz_ = self.state.len(); for k in 0..nz_ { B' }` where B' is B with
                    `state.` -> `self.state[k].` and `unsafe { output.assume_init_drop() };` -> `self.output.drop(k);`
                    (lock-step zip of two slices = one running index; zip stops at the shorter one:
                    the bound is state's length and `output.drop(k)` carries the index obligation
                    S_DROP_INDEX, so a shorter output table is flagged rather than silently accepted).
"""
import re as _re
from . import rustlex as _lex


def _for_index_while(body):
    m = _re.search(r'\bfor\s+index\s+in\s+([^{};]+?)\s*\.\.(?![=.])\s*([^{};]+?)\s*\{', body)
    if not m:
        return body, 0
    ob = m.end() - 1
    cb = _lex.match_close(_lex.mask(body), ob)
    inner = body[ob + 1:cb]
    new = ('let mut index_: usize = %s; let n_ = %s;\n        while index_ < n_ {\n            let index = index_; index_ += 1;%s}'
           % (m.group(1), m.group(2), inner))
    return body[:m.start()] + new + body[cb + 1:], 1


def _zip_drop_loop(body, bound):
    m = _re.search(r'\bfor\s*\(\s*state\s*,\s*output\s*\)\s*in\s*self\.state\.iter_mut\(\)\s*\.zip\(\s*self\.output\.iter_mut\(\)\s*\)\s*\{', body)
    if not m:
        return body, 0
    ob = m.end() - 1
    cb = _lex.match_close(_lex.mask(body), ob)
    inner = body[ob:cb + 1]
    inner = _re.sub(r'unsafe\s*\{\s*output\.assume_init_drop\(\)\s*\}\s*;', 'self.output.drop(k);', inner)
    inner = _re.sub(r'\bstate\.', 'self.state[k].', inner)
    if _re.search(r'\boutput\b(?!\.drop\(k\))', inner.replace('self.output.drop(k)', '')):
        # some other use of the zipped `output` binding: not expressible as an index loop by this rule
        return body, 0
    pre = ''
    if bound != 'N':
        pre = 'let nz_ = %s; ' % bound
        bound = 'nz_'
    return body[:m.start()] + pre + 'for k in 0..%s ' % bound + inner + body[cb + 1:], 1


RULES = {
    'Z_for_index_while': [(lambda body: _for_index_while(body))],
    'Z_zip_drop_loop_N': [(lambda body: _zip_drop_loop(body, 'N'))],
    'Z_zip_drop_loop_len': [(lambda body: _zip_drop_loop(body, 'self.state.len()'))],
}


# ---------------------------------------------------------------------------------------------
# Tuple zip (src/stream/zip/tuple.rs, extracted from the compiler's macro expansion).
# Field letter X <-> position pos(X) = index of X in 'ABCDEFGHIJKL' (the order of `$($F)+` in
# `impl_zip_for_tuple! { zip_N ZipN A B .. }` = order of `enum Indexes`, of the struct's stream fields
# and of the item tuple).  Every rule that fixes a positional order verifies it and otherwise does
# not match (lost anchor => undecided), never silently accepts.
# ---------------------------------------------------------------------------------------------
_LETTERS = 'ABCDEFGHIJKL'


def _pos(letter):
    return _LETTERS.index(letter)


def _ordered(ls):
    return ls == list(_LETTERS[:len(ls)])


def _zt_mod_const(body):
    """`zip_N::X` (pub(super) const X: usize = Indexes::X as usize) -> the literal pos(X); in patterns of
    `match index` and in `self.state[zip_N::X]`.  `zip_N::Output`/`zip_N::LEN` are not single letters."""
    n = 0

    def rep(m):
        nonlocal n
        n += 1
        return str(_pos(m.group(1)))
    return _re.sub(r'\bzip_\d+::([A-L])\b(?!\s*::)', rep, body), n


def _zt_child_poll(body):
    """`let stream = unsafe { Pin::new_unchecked(&mut self.X) }; match stream.poll_next(&mut cx)` ->
    proof-mode ZIP_SKIP_BUFFERED / Inv-OWN checks + `match self.streams.poll_next_child(pos(X), &mut cx, &mut self.wakers)`."""
    pat = _re.compile(r'let\s+stream\s*=\s*unsafe\s*\{\s*Pin::new_unchecked\(&mut\s+self\.([A-L])\)\s*\};\s*match\s+stream\.poll_next\(&mut cx\)', _re.S)
    n = 0

    def rep(m):
        nonlocal n
        n += 1
        p = _pos(m.group(1))
        return ('proof { zip_hold_back(self.output.v@, %d);\n assert(self.inv_own()); // @OBL ZIPT_INV_OWN_AT_CHILD_POLL props=C02\n }\n'
                'match self.streams.poll_next_child(%d, &mut cx, &mut self.wakers)' % (p, p))
    return pat.sub(rep, body), n


def _zt_out_write(body):
    n = 0

    def rep(m):
        nonlocal n
        n += 1
        return 'self.output.write(%d, %s);' % (_pos(m.group(1)), m.group(2))
    return _re.sub(r'self\.output\.([A-L])\s*=\s*MaybeUninit::new\((\w+)\);', rep, body), n


def _zt_take_block(body):
    """let mut output = zip_N::Output::default(); core::mem::swap(self.output, &mut output);
    match output { zip_N::Output { A, B, .. } => return Poll::Ready(Some((unsafe { A.assume_init() }, ..))), }
    =>  let output = self.output.take(); return Poll::Ready(Some(output));
    The letters must be exactly A.. in positional order in the pattern and in the result tuple."""
    m = _re.search(r'let\s+mut\s+output\s*=\s*zip_\d+::Output::default\(\);\s*core::mem::swap\(self\.output,\s*&mut output\);\s*'
                   r'match\s+output\s*\{\s*zip_\d+::Output\s*\{([A-L,\s]+?)\}\s*=>\s*return\s+Poll::Ready\(Some\(\(((?:\s*unsafe\s*\{\s*[A-L]\.assume_init\(\)\s*\},?)+)\s*\)\)\),?\s*\}',
                   body, _re.S)
    if not m:
        return body, 0
    d = [x.strip() for x in m.group(1).split(',') if x.strip()]
    r = _re.findall(r'([A-L])\.assume_init\(\)', m.group(2))
    if not _ordered(d) or r != d:
        return body, 0
    return body[:m.start()] + 'let output = self.output.take(); return Poll::Ready(Some(output));' + body[m.end():], 1


def _zt_assume_init_drop(body):
    n = 0

    def rep(m):
        nonlocal n
        n += 1
        return 'self.output.drop(%d);' % _pos(m.group(1))
    return _re.sub(r'unsafe\s*\{\s*self\.output\.([A-L])\.assume_init_drop\(\)\s*\};', rep, body), n


def _zt_ctor_fields(body):
    """`Self::Stream { done: .., .., A, B, }`: the trailing shorthand stream fields (field X := variable X, bound
    positionally by the verified `let (A, B): (A, B) = self;`) -> `streams,`; letters must be A.. in order."""
    m = _re.search(r'Self::Stream\s*\{(.*?)((?:\s*[A-L]\s*,)+)\s*\}', body, _re.S)
    if not m:
        return body, 0
    ls = _re.findall(r'([A-L])\s*,', m.group(2))
    if not _ordered(ls) or _re.search(r'\b[A-L]\b', m.group(1)):
        return body, 0
    return body[:m.start()] + 'Self {' + m.group(1) + ' streams, }' + body[m.end():], 1


RULES.update({
    'ZT_mod_const': [_zt_mod_const],
    'ZT_child_poll': [_zt_child_poll],
    'ZT_out_write': [_zt_out_write],
    'ZT_take_block': [_zt_take_block],
    'ZT_assume_init_drop': [_zt_assume_init_drop],
    'ZT_ctor_fields': [_zt_ctor_fields],
    # if !COND { { ::core::panicking::panic_fmt(format_args!("..")); } };  => assert!(COND);   (COND may itself start with `!`)
    'ZT_panic_assert': [(r'if !(!?[\w.]+)\s*\{\s*\{\s*::core::panicking::panic_fmt\(format_args!\("[^"]*"\)\);\s*\}\s*\};?', r'assert!(\1);')],
    # `_ => ::core::panicking::panic("internal error: entered unreachable code"),` (unreachable!()) => obligation: the arm is dead
    'ZT_unreachable': [(r'::core::panicking::panic\("internal error: entered unreachable code"\)', 'zip_unreachable()')],
    'ZT_all_ready': [(r'self\.state\.iter\(\)\.all\(\|state\|\s*state\.is_ready\(\)\)', 'self.state_all_ready()')],
    'ZT_set_all_pending': [(r'self\.state\.set_all_pending\(\);', 'zip_set_all_pending_array(&mut self.state);')],
    'ZT_ctor_output': [(r'output:\s*Default::default\(\)', 'output: OutputArray::uninit()')],
})
