"""`vx check PROP [--tier quick|thorough]` -- the registered check."""
import os
import re
import sys
import json
import time
import shutil
import subprocess
from concurrent.futures import ThreadPoolExecutor

from . import gen as G
from .rustlex import ExtractError
from . import main as M

VERIF = G.VERIF
KNOWN = os.path.join(VERIF, 'known_findings.txt')
JOBS = int(os.environ.get('VX_JOBS', '16'))

TRUSTED_BASE = [
    'Verus 0.2026.09.13 + Z3 (SMT back end); rustc front end',
    'extraction rules N1-N8/P1-P10 of DESIGN 2.2/2.3 preserve meaning (logged per run in coverage.rewrites)',
    'environment model units/prelude.vx, units/model_*.vx (external_body contracts): child poll may return anything and fire any waker; Mutex = mutual exclusion; parent waker does not re-enter',
    'unsafe storage leaves (FutureArray/FutureVec pin projections, MaybeUninit/ManuallyDrop cells behind OutputArray/OutputVec) and dependencies (fixedbitset, smallvec, BTreeSet, futures-buffered) by assumed contracts; slab is NOT assumed: its functions are verified on the dependency source (unit dep_slab, cargo registry copy of the version in Cargo.lock) and called through verified glue (only Vec::push/with_capacity, mem::replace / IndexMut of one Vec element and reserve_exact are trusted there)',
    'functions of /repo/src that no unit extracts (Debug impls, trait entry-point wrappers such as `[F; N]::join`, iterator-chain helpers ready_indexes/pending_indexes, IntoStream/IntoFuture plumbing, utils::channel) are outside the proof; a change to them only triggers the bounded witness enumeration (coverage.changes_outside_contract_coverage)',
    'machine arithmetic checked by Verus under stated range preconditions (N, len <= usize::MAX/2)',
]


# Kani harnesses (kani/in_crate.rs, compiled inside /repo under cfg(kani)); bounded, never counted as proved
KANI_HARNESSES = {
    'C02': [('k2_output_array_box_drop_once', 'N = 2, owning payload'), ('k2_future_array_drop_exactly_one', 'N = 2'),
            ('k2_array_assume_init_identity', 'N = 2, all u16 values'), ('k1_pollarray_index_helpers', 'N = 3, all 27 states, unwind 5'),
            ('k2_output_vec_box_drop_once', 'N = 2, owning payload, unwind 5'), ('k2_future_vec_drop_exactly_one', 'N = 2, unwind 5'),
            ('k1_pollvec_index_helpers', 'N = 3, all 27 states, unwind 5')],
    'C04': [('k2_output_array_write_take_positional', 'N = 3, all u8 values, all write orders'),
            ('k2_output_vec_write_take_positional', 'N = 2, all u8 values, both write orders, unwind 5')],
}


_ALLC = ['array', 'vec', 'tuple']
def _fams(*names):
    out = []
    for n in names:
        if n in ('future_group', 'stream_group'):
            out.append((n, 'group'))
        elif n in ('wait_until', 'co_stream'):
            out.append((n, 'na'))
        else:
            out += [(n, c) for c in _ALLC]
    return out


# families whose real code the witness enumeration exercises for a property (thorough tier; bounded)
WITNESS_FAMILIES = {
    'C01': _fams('join', 'try_join', 'race', 'race_ok', 'merge', 'zip', 'chain', 'future_group', 'stream_group'),
    'C02': _fams('join', 'try_join', 'race_ok', 'zip', 'future_group', 'stream_group'),
    'C03': _fams('join', 'try_join', 'race', 'race_ok', 'merge', 'zip', 'chain', 'future_group', 'stream_group'),
    'C04': _fams('join'), 'C05': _fams('try_join'), 'C06': _fams('race'), 'C07': _fams('race_ok'),
    'C08': _fams('merge'), 'C09': _fams('zip'), 'C10': _fams('chain'),
    'C11': _fams('future_group'), 'C12': _fams('stream_group'),
    'C13': _fams('co_stream'), 'C14': _fams('co_stream'), 'C15': _fams('co_stream'),
    'C16': _fams('join', 'try_join', 'merge', 'zip', 'future_group', 'stream_group'),
    'C17': _fams('merge'), 'C19': _fams('wait_until'),
    'C20': _fams('join', 'try_join', 'race', 'race_ok', 'merge', 'zip', 'future_group', 'stream_group'),
}


_REL = {}
def relevant_files(prop):
    """the files a property is anchored in (properties.jsonl `anchors.files`)"""
    if not _REL:
        try:
            for ln in open(os.path.join(VERIF, 'properties.jsonl')):
                pj = json.loads(ln)
                _REL[pj['id']] = set(pj.get('anchors', {}).get('files', []))
        except Exception:
            pass
    return _REL.get(prop, set())


def run_kani(harnesses):
    res = []
    env = dict(os.environ, CARGO_NET_OFFLINE='true', CARGO_TARGET_DIR='/var/tmp/vx-kani-target')
    for (h, bound) in harnesses:
        t0 = time.time()
        try:
            p = subprocess.run(['cargo', 'kani', '--no-default-features', '--features', 'alloc', '--harness', h],
                               cwd=G.REPO, env=env, capture_output=True, text=True, timeout=1800)
            out = p.stdout + p.stderr
            if 'VERIFICATION:- SUCCESSFUL' in out:
                st = 'SUCCESSFUL'
            elif 'VERIFICATION:- FAILED' in out:
                st = 'FAILED'
            else:
                st = 'not run (%s)' % (out.strip().split('\n')[-1][:200] if out.strip() else 'no output')
        except subprocess.TimeoutExpired:
            out, st = '', 'not run (timeout 1800 s)'
        res.append(dict(harness=h, status=st, bound=bound, wall_s=round(time.time() - t0, 1), output=out))
    return res


STD_ONLY_PROPS = ('C16',)


def load_known():
    res = []
    if not os.path.exists(KNOWN):
        return res
    for ln in open(KNOWN):
        ln = ln.strip()
        if not ln or ln.startswith('#'):
            continue
        if ln.startswith('finding:'):
            kv = dict(re.findall(r'(\w+)=(\S+)', ln))
            desc = ln.split('::', 1)[1].strip() if '::' in ln else ''
            res.append(dict(prop=kv.get('property'), obligation=kv.get('obligation'), unit=kv.get('unit', '*'), desc=desc))
    return res


def is_known(known, prop, f):
    for k in known:
        if k['prop'] != prop:
            continue
        if k['obligation'] not in f['tags']:
            continue
        if k['unit'] not in ('*', f['unit']):
            continue
        return k
    return None


def cmd_check(args):
    tier = os.environ.get('VERIF_TIER', 'quick')
    if '--tier' in args:
        tier = args[args.index('--tier') + 1]
    prop = [a for a in args if re.match(r'C\d+$', a)][0]
    seed = int(os.environ.get('VERIF_SEED', '0') or 0)
    t0 = time.time()
    units = G.load_units()
    cone = [u for u in units.values() if u.is_unit and prop in u.props and (tier == 'thorough' or u.tier == 'quick')]
    outdir = os.path.join(VERIF, 'gen', prop)
    shutil.rmtree(outdir, ignore_errors=True)
    os.makedirs(outdir, exist_ok=True)
    replay_dir = os.path.join(VERIF, 'replay_out')
    os.makedirs(replay_dir, exist_ok=True)
    for fn in os.listdir(replay_dir):
        if fn.startswith(prop + '-'):
            os.remove(os.path.join(replay_dir, fn))

    jobs = []      # (unit, cfg, vac, path, text, log)
    undecided = []
    rewrites = []
    for u in cone:
        for cfg in u.configs:
            if prop in STD_ONLY_PROPS and cfg != 'std':
                continue   # the property explicitly excludes the alloc-only / no_std configurations
            for vac in (False, True):
                try:
                    path, text, log = M.gen_unit(units, u.name, cfg, outdir, vac)
                    jobs.append((u, cfg, vac, path, text, log))
                    if not vac:
                        rewrites += [dict(unit=u.name, cfg=cfg, **l) for l in log if 'rule' in l]
                except ExtractError as e:
                    if not vac:
                        undecided.append(dict(unit=u.name, cfg=cfg, kind='extract', message=str(e)))
                except Exception as e:   # a generator bug on unexpected source text is a tool limit, never a verdict
                    if not vac:
                        undecided.append(dict(unit=u.name, cfg=cfg, kind='extract', message='generator error: %r' % (e,)))

    seeds = [None] if tier == 'quick' else [None, seed + 1]
    # the thorough tier's largest tuple arities sit close to the quick tier's resource limit (and it runs a second Z3 seed)
    rlimit = M.RLIMIT if tier == 'quick' else str(max(int(M.RLIMIT), 80))

    def work(j):
        u, cfg, vac, path, text, log = j
        rs = []
        for s in (seeds if not vac else [None]):
            r = M.run_verus(path, rlimit=rlimit, seed=s, use_cache=(tier == 'quick'))
            if not vac and not r.get('tool_error') and not r.get('ok'):
                # second opinion before anything is reported as refuted: the same obligations with Verus' loop isolation
                # switched off (facts about locals bound before a loop stay visible inside it -- e.g. a field read hoisted
                # into a `let`).  If that run discharges EVERY obligation of the file it is a complete proof and replaces
                # the first verdict; otherwise the first verdict stands.
                fails, undec = M.classify(r['diags'], M.FileMap(text, u.props), path, u.name, cfg)
                if fails and not undec:
                    alt = path[:-3] + '_iso.rs'
                    with open(alt, 'w') as fh:
                        fh.write(re.sub(r'(// @FN [^\n]*\n)', r'\1#[verifier::loop_isolation(false)]\n', text))
                    r2 = M.run_verus(alt, rlimit=rlimit, seed=s, use_cache=(tier == 'quick'))
                    if r2.get('ok') and not r2.get('tool_error') and r2.get('errors', 1) == 0:
                        r2['second_opinion'] = 'loop_isolation(false)'
                        r = r2
            rs.append(r)
        return j, rs

    results = []
    with ThreadPoolExecutor(max_workers=JOBS) as ex:
        for j, rs in ex.map(work, jobs):
            results.append((j, rs))

    violations, other_fail, functions = [], [], []
    cache_hits = cache_misses = 0
    obligations = {}     # key -> dict
    verified_fns = 0
    solver_ms = 0
    vac_expected = vac_refuted = 0
    second_opinions = []
    unchecked = dict(external_body=set(), assume=0, admit=0, assume_specification=set(), uninterpreted_or_external_types=set())
    files = 0
    for (u, cfg, vac, path, text, log), rs in results:
        fmap = M.FileMap(text, u.props)
        for r in rs:
            if r.get('second_opinion'):
                second_opinions.append(dict(unit=u.name, cfg=cfg, mode=r['second_opinion']))
            if r.get('cached'):
                cache_hits += 1
            else:
                cache_misses += 1
            if r.get('tool_error'):
                undecided.append(dict(unit=u.name, cfg=cfg, kind='tool', message=r['tool_error'][:600]))
                continue
            fails, undec = M.classify(r['diags'], fmap, path, u.name, cfg)
            if vac:
                want = [k + 1 for k, ln in enumerate(fmap.lines) if '// @VAC' in ln]
                got = set(f['line'] for f in fails if 'assertion failed' in f['message'])
                vac_expected += len(want)
                for w in want:
                    if w in got:
                        vac_refuted += 1
                    elif not undec:
                        undecided.append(dict(unit=u.name, cfg=cfg, kind='vacuous', message='vacuity probe accepted at %s:%d: %s' % (path, w, fmap.lines[w - 1].strip())))
                for x in undec:
                    undecided.append(dict(unit=u.name, cfg=cfg, kind=x['kind'], message='(vacuity twin) ' + x['message'][:300]))
                continue
            files += 1
            verified_fns += r.get('verified', 0)
            try:
                solver_ms += r['summary']['times-ms']['smt']['smt-run']
            except Exception:
                pass
            for x in undec:
                undecided.append(dict(unit=u.name, cfg=cfg, kind=x['kind'], message=x['message'][:400], fn=x['fn'], line=x['line'], file=path))
            for f in fails:
                if prop in f['props']:
                    violations.append(f)
                else:
                    other_fail.append(f)
            # obligations of this property in this file
            for k, ln in enumerate(fmap.lines):
                for m in re.finditer(r'@OBL (\S+)(?:\s+props=(\S+))?', ln):
                    ps = m.group(2).split(',') if m.group(2) else fmap.origin_props.get(fmap.origin[k], [])
                    if prop in ps:
                        key = '%s.%s:%s:%s' % (u.name, cfg, fmap.fn[k] or '-', m.group(1))
                        obligations.setdefault(key, dict(ok=True, clause=re.sub(r'\s*// @OBL.*', '', ln).strip()))
            for m in re.finditer(r'// @FN (\S+) src=(\S+)', text):
                functions.append('%s [%s.%s]' % (m.group(1), u.name, cfg))
            # mechanical scan of the generated text for everything that is assumed rather than proved
            for m in re.finditer(r'#\[verifier::external_body\]\s*(?:pub\s+)?(?:open\s+|closed\s+)?(?:async\s+)?(?:proof\s+|exec\s+)?fn\s+(\w+)', text):
                k_ = fmap.origin[text.count('\n', 0, m.start())] if text.count('\n', 0, m.start()) < len(fmap.origin) else None
                unchecked['external_body'].add('%s::%s' % (k_, m.group(1)))
            unchecked['assume'] += len(re.findall(r'(?<![\w.])assume\s*\(', text))
            unchecked['admit'] += len(re.findall(r'(?<![\w.])admit\s*\(', text))
            for m in re.finditer(r'assume_specification[^\[;]*\[\s*(.+?)\s*\]\s*\(', text):
                unchecked['assume_specification'].add(re.sub(r'\s+', '', m.group(1)))
            for m in re.finditer(r'(?:uninterp\s+spec\s+fn|external_type_specification\]\s*(?:#\[[^\]]*\]\s*)*pub struct)\s+(\w+)', text):
                unchecked['uninterpreted_or_external_types'].add(m.group(1))
    # an obligation is discharged iff no failure names it (or lies in its function without tag)
    for f in violations:
        for t in f['tags'] or ['(untagged:%s)' % f['message']]:
            key = '%s.%s:%s:%s' % (f['unit'], f['cfg'], f['fn'] or '-', t)
            obligations.setdefault(key, dict(ok=False, clause=f['message']))['ok'] = False

    known = load_known()
    # de-duplicate violations (same unit/fn/tag/message across seeds)
    seen = set()
    uniq = []
    for f in violations:
        k = (f['unit'], f['cfg'], f['fn'], tuple(f['tags']), f['message'], f['line'])
        if k not in seen:
            seen.add(k)
            uniq.append(f)
    violations = uniq
    real, knownhits = [], []
    for f in violations:
        k = is_known(known, prop, f)
        if k:
            knownhits.append((k, f))
        else:
            real.append(f)

    out_lines = []
    def write_replay(f, known=None):
        tag = (f['tags'] or ['untagged'])[0]
        rp = os.path.join(replay_dir, '%s-%s-%s-%s-L%d.json' % (prop, f['unit'], f['cfg'], tag, f['line']))
        wit = None
        try:
            from . import witness
            wit = witness.search(prop, f, WITNESS_FAMILIES.get(prop))
        except Exception as e:  # witness machinery must never turn a violation into a crash
            wit = dict(found=False, note='witness search failed: %r' % (e,))
        with open(rp, 'w') as fh:
            json.dump(dict(property=prop, obligation=f['tags'], unit=f['unit'], config=f['cfg'], function=f['fn'],
                           source=f['src'], verifier='verus', verifier_message=f['message'], verifier_output=f['rendered'],
                           generated_file=f['genfile'], generated_line=f['line'], known_finding=known, witness=wit), fh, indent=1)
        return rp, wit

    for k, f in knownhits:
        rp, wit = write_replay(f, known=k['desc'])
        out_lines.append('KNOWN-FINDING: property=%s %s [%s %s.%s] replay=%s%s' % (
            prop, k['desc'], k['obligation'], f['unit'], f['cfg'], rp, '' if (wit and wit.get('found')) else ' no-failing-input-found'))
    for f in real:
        rp, wit = write_replay(f)
        suffix = '' if (wit and wit.get('found')) else ' no-failing-input-found'
        out_lines.append('VIOLATION property=%s replay=%s%s' % (prop, rp, suffix))

    # ---- bounded stand-in for functions that fell OUTSIDE the verifier's reach (lost anchor, construct outside the Verus
    # subset, resource limit): a bounded scenario enumeration of the real combinator family of that unit (/verif/witness).
    # It can only turn "undecided" into a VIOLATION with a concrete failing input replayed on the real code; if it
    # finds nothing the unit stays undecided (exit 2) -- it is never counted as proved.
    standins = []
    if undecided and not real:
        seen_u = set()
        for u in undecided:
            key = (u.get('unit'), u.get('cfg'))
            if not u.get('unit') or key in seen_u or u.get('kind') == 'vacuous':
                continue
            seen_u.add(key)
            f = dict(unit=u['unit'], cfg=u.get('cfg', 'std'), fn=u.get('fn'), tags=['UNDECIDED_' + str(u.get('kind'))], line=u.get('line') or 0,
                     src=None, message='verifier undecided: ' + str(u.get('message'))[:400], rendered=str(u.get('message')), genfile=u.get('file'))
            try:
                from . import witness
                wit = witness.search(prop, f, WITNESS_FAMILIES.get(prop))
            except Exception as e:
                wit = dict(found=False, note='witness search failed: %r' % (e,))
            standins.append(dict(unit=u['unit'], cfg=u.get('cfg'), found=bool(wit.get('found')), bounds='families with <= 3 children (tuples <= 3), scripted child steps and driver schedules, budget %s scenarios, seed %s' % (os.environ.get('VX_WITNESS_BUDGET', '20000'), seed)))
            if wit.get('found'):
                rp = os.path.join(replay_dir, '%s-%s-%s-bounded-standin.json' % (prop, u['unit'], u.get('cfg')))
                with open(rp, 'w') as fh:
                    json.dump(dict(property=prop, obligation=['(verifier undecided for this unit: %s)' % str(u.get('message'))[:300]],
                                   unit=u['unit'], config=u.get('cfg'), verifier='verus: undecided; bounded stand-in: witness scenario enumeration on the real crate',
                                   verifier_output=str(u.get('message')), witness=wit), fh, indent=1)
                out_lines.append('VIOLATION property=%s replay=%s' % (prop, rp))
                real.append(f)

    # ---- bounded stand-in for changes OUTSIDE the contracts' reach (vx/fingerprint.py): a function of /repo/src that no
    # unit of this property extracts (entry-point wrappers, Debug impls, helper leaves, ...) or an item outside function
    # bodies differs from the pinned baseline.  The contracts cannot see it; the witness enumeration on the real crate can
    # only ADD a violation with a concrete failing scenario (never an alarm by itself, never counted as proved).
    uncovered = []
    uncovered_runs = []
    if not real and prop in WITNESS_FAMILIES and not os.environ.get('VX_NO_WITNESS') and G.REPO == '/repo':
        try:
            from . import fingerprint
            uncovered = fingerprint.uncovered_changes(G.REPO, set(x.split(' [')[0] for x in functions), [u.name for u in cone])
            rel = relevant_files(prop)
            uncovered = [x for x in uncovered if x.split('::')[0] in rel or x.startswith('src/utils/') or x.startswith('src/collections/') or x.startswith('src/lib.rs')]
        except Exception as e:
            uncovered = []
            uncovered_runs.append(dict(error='fingerprint failed: %r' % (e,)))
        if uncovered:
            from . import witness as W
            found_one = False
            for cfg_w in (('std',) if prop in STD_ONLY_PROPS else ('std', 'nostd')):
                if found_one:
                    break
                need_co = any(f == 'co_stream' for f, _ in WITNESS_FAMILIES[prop])
                exe, err = W.build(cfg_w, need_co)
                if exe is None:
                    uncovered_runs.append(dict(config=cfg_w, status='not run (witness build failed: %s)' % err[-200:]))
                    continue
                props_w = [prop] + (['C01', 'C20'] if prop in W.LIVENESS_VIA_C01 else [])
                for (fam, cont), prop_w in [(t, p_) for p_ in props_w for t in WITNESS_FAMILIES[prop]]:
                    try:
                        pw = subprocess.run([exe, '--family', fam, '--container', cont, '--prop', prop_w, '--budget', W.BUDGET, '--seed', str(seed or 1)],
                                            capture_output=True, text=True, timeout=900)
                        j = json.loads((pw.stdout.strip().split('\n') or [''])[-1])
                    except Exception as e:
                        uncovered_runs.append(dict(family=fam, container=cont, config=cfg_w, status='not run (%r)' % (e,)))
                        continue
                    uncovered_runs.append(dict(family=fam, container=cont, config=cfg_w, monitor=prop_w, found=bool(j.get('found')), explored=j.get('explored')))
                    if j.get('found'):
                        rp = os.path.join(replay_dir, '%s-uncovered-change-%s-%s-%s.json' % (prop, fam, cont, cfg_w))
                        with open(rp, 'w') as fh:
                            json.dump(dict(property=prop, obligation=['(no contract covers the changed code: %s)' % ', '.join(uncovered[:6])],
                                           verifier='bounded stand-in: witness scenario enumeration on the real crate (/verif/witness)',
                                           witness=dict(found=True, scenario=j.get('scenario'), observed=j.get('observed'), config=j.get('config'),
                                                        monitor=prop_w, replay_cmd="%s --replay '%s' --prop %s --trace" % (exe, json.dumps(j.get('scenario')), prop_w))), fh, indent=1)
                        out_lines.append('VIOLATION property=%s replay=%s' % (prop, rp))
                        real.append(dict(unit='witness', cfg=cfg_w, fn=fam, tags=['BOUNDED_UNCOVERED_CHANGE'], message='witness found a violating scenario', line=0))
                        found_one = True
                        break

    # ---- bounded stand-in (thorough tier only): Kani on the real unsafe storage leaves ----
    bounded = []
    if tier == 'thorough' and prop in KANI_HARNESSES:
        bounded = run_kani(KANI_HARNESSES[prop])
        for b in bounded:
            if b['status'] == 'FAILED':
                rp = os.path.join(replay_dir, '%s-kani-%s.json' % (prop, b['harness']))
                with open(rp, 'w') as fh:
                    json.dump(dict(property=prop, obligation=['KANI_' + b['harness']], verifier='kani/cbmc (bounded, real crate)',
                                   verifier_output=b['output'][-6000:]), fh, indent=1)
                out_lines.append('VIOLATION property=%s replay=%s' % (prop, rp))
                real.append(dict(unit='kani', cfg='alloc', fn=b['harness'], tags=['KANI_' + b['harness']], message='kani harness failed', line=0))
            elif b['status'] != 'SUCCESSFUL':
                undecided.append(dict(kind='tool', message='kani harness %s: %s' % (b['harness'], b['status'])))

    # ---- bounded stand-in (thorough tier only): scenario enumeration on the real crate for the leaves that stay assumed
    # (FutureArray/FutureVec pin projections, slab, BTreeSet, futures-buffered, utils::pin) ----
    if tier == 'thorough' and prop in WITNESS_FAMILIES:
        from . import witness as W
        for cfg_w in (('std',) if prop in STD_ONLY_PROPS else ('std', 'nostd')):
            need_co = any(f == 'co_stream' for f, _ in WITNESS_FAMILIES[prop])
            exe, err = W.build(cfg_w, need_co)
            if exe is None:
                bounded.append(dict(harness='witness(%s)' % cfg_w, status='not run (%s)' % err[-200:], bound='', wall_s=0, output=''))
                continue
            for (fam, cont) in WITNESS_FAMILIES[prop]:
                t1 = time.time()
                try:
                    pw = subprocess.run([exe, '--family', fam, '--container', cont, '--prop', prop, '--budget', '5000', '--seed', str(seed or 1)],
                                        capture_output=True, text=True, timeout=900)
                    line = (pw.stdout.strip().split('\n') or [''])[-1]
                    j = json.loads(line)
                except Exception as e:
                    bounded.append(dict(harness='witness %s/%s (%s)' % (fam, cont, cfg_w), status='not run (%r)' % (e,), bound='', wall_s=0, output=''))
                    continue
                hb = dict(harness='witness %s/%s (%s)' % (fam, cont, cfg_w), bound='<= 3 children, 5000 scenarios, seed %s' % (seed or 1),
                          wall_s=round(time.time() - t1, 1), output=line[:2000])
                if j.get('found'):
                    hb['status'] = 'FAILED'
                    rp = os.path.join(replay_dir, '%s-witness-%s-%s-%s.json' % (prop, fam, cont, cfg_w))
                    with open(rp, 'w') as fh:
                        json.dump(dict(property=prop, obligation=['BOUNDED_WITNESS_%s_%s' % (fam, cont)], verifier='bounded scenario enumeration on the real crate (/verif/witness)',
                                       witness=dict(found=True, scenario=j.get('scenario'), observed=j.get('observed'), config=j.get('config'),
                                                    replay_cmd="%s --replay '%s' --prop %s --trace" % (exe, json.dumps(j.get('scenario')), prop))), fh, indent=1)
                    out_lines.append('VIOLATION property=%s replay=%s' % (prop, rp))
                    real.append(dict(unit='witness', cfg=cfg_w, fn=fam, tags=['BOUNDED_WITNESS'], message='witness found a violating scenario', line=0))
                else:
                    hb['status'] = 'SUCCESSFUL' if not j.get('skipped') else 'skipped (%s)' % j.get('skipped')
                bounded.append(hb)

    n_obl = len(obligations)
    n_ok = sum(1 for o in obligations.values() if o['ok'])
    samples = [dict(obligation=k, clause=v['clause'][:200], discharged=v['ok']) for k, v in list(sorted(obligations.items()))[:12]]
    ev = dict(
        property_id=prop, tier=tier, seed=seed, level='proof',
        coverage=dict(
            obligations=n_obl, discharged=n_ok,
            checker_cmd='verus <unit>__<cfg>.rs --output-json --time --multiple-errors 20 --error-format=json --rlimit %s (one file per unit x config, generated from /repo working tree by vx/gen.py)' % rlimit,
            trusted_base=TRUSTED_BASE,
            units=[dict(unit=u.name, configs=u.configs) for u in cone],
            files_verified=files, verus_functions_verified=verified_fns,
            verus_runs=dict(executed_now=cache_misses, reused_identical_file=cache_hits, note='quick tier reuses the verdict of a byte-identical generated file (same Verus version, rlimit, seed) from an earlier check invocation on this machine; thorough tier always executes; VX_NO_CACHE=1 disables'),
            functions_under_contract=sorted(set(functions)),
            by_backend=dict(verus_z3=n_ok, kani_cbmc_complete=0, kani_cbmc_bounded=sum(1 for b in bounded if b['status'] == 'SUCCESSFUL')),
            bounded_standins_for_undecided_units=standins,
            changes_outside_contract_coverage=dict(changed=uncovered[:40], bounded_standin_runs=uncovered_runs[:60],
                note='functions/items of /repo/src that differ from the pinned baseline and that no unit of this property extracts; only the bounded witness enumeration looked at them'),
            bounded_checks=[dict(harness=b['harness'], status=b['status'], bound=b['bound'], wall_s=b['wall_s']) for b in bounded],
            solver_time_s=round(solver_ms / 1000.0, 2),
            vacuity_twins=dict(expected_refuted=vac_expected, refuted=vac_refuted),
            proved_with_loop_isolation_off=second_opinions,
            unchecked_scan=dict(note='mechanical scan of every generated file of this check: functions whose contract is assumed (external_body = environment / dependency / unsafe-leaf models), assume()/admit() statements, assume_specification items, uninterpreted spec functions and external types',
                                external_body_functions=sorted(unchecked['external_body']), assume_statements=unchecked['assume'], admit_statements=unchecked['admit'],
                                assume_specification=sorted(unchecked['assume_specification']), uninterpreted_or_external=sorted(unchecked['uninterpreted_or_external_types'])),
            rewrites=rewrites[:400],
            undecided=undecided[:50],
            failures_outside_property=[dict(unit=f['unit'], cfg=f['cfg'], fn=f['fn'], tags=f['tags'], props=f['props']) for f in other_fail][:50],
            known_findings=[dict(obligation=k['obligation'], desc=k['desc']) for k, f in knownhits],
            samples=samples,
        ),
        assumptions=TRUSTED_BASE,
        wall_s=round(time.time() - t0, 2),
        violations=len(real),
    )
    os.makedirs(os.path.join(VERIF, 'evidence'), exist_ok=True)
    if n_obl == 0:
        undecided.append(dict(kind='vacuous', message='no obligations generated for %s' % prop))
    evp = os.path.join(VERIF, 'evidence', prop + '.json')
    with open(evp, 'w') as fh:
        json.dump(ev, fh, indent=1)
    for l in out_lines:
        print(l)
    print('%s tier=%s units=%d files=%d obligations=%d discharged=%d verus_fns=%d vacuity=%d/%d undecided=%d violations=%d known=%d wall=%.1fs' % (
        prop, tier, len(cone), files, n_obl, n_ok, verified_fns, vac_refuted, vac_expected, len(undecided), len(real), len(knownhits), time.time() - t0))
    if real:
        return 1
    if undecided:
        for u in undecided[:20]:
            print('UNDECIDED %s' % json.dumps(u)[:700])
        return 2
    return 0
