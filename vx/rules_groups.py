"""Rewrite rules for the group units (future_group.vx, stream_group.vx): DESIGN 2.3 P1/P2/P7/P8."""
import re as _re
from . import rustlex as _lex


def _block(body, m):
    ob = m.end() - 1
    cb = _lex.match_close(_lex.mask(body), ob)
    return ob, cb


def keys_iter(body):
    """P7: `for index in self.keys.iter().cloned() { B }` =>
    `let ks = self.keys.ascending(); let mut kk: usize = 0; while kk < ks.len() { let index = ks[kk]; kk += 1; B }`
    (`break` inside B keeps its meaning)."""
    m = _re.search(r'for\s+(\w+)\s+in\s+self\.keys\.iter\(\)\.cloned\(\)\s*\{', body)
    if not m:
        return body, 0
    ob, cb = _block(body, m)
    var = m.group(1)
    return (body[:m.start()] + 'let ks = self.keys.ascending(); let mut kk: usize = 0; while kk < ks.len() { let %s = ks[kk]; kk += 1;' % var
            + body[ob + 1:cb] + '}' + body[cb + 1:]), 1


def queue_iter(body):
    """`for key in self.key_removal_queue.iter() { B }` => index loop over the same elements."""
    m = _re.search(r'for\s+(\w+)\s+in\s+self\.key_removal_queue\.iter\(\)\s*\{', body)
    if not m:
        return body, 0
    ob, cb = _block(body, m)
    var = m.group(1)
    return (body[:m.start()] + 'let nq_ = self.key_removal_queue.len(); for qi in 0..nq_ { let %s = self.key_removal_queue.get(qi);' % var
            + body[ob + 1:cb] + '}' + body[cb + 1:]), 1


def for_user_iter(body):
    """N7: `for x in iter { B }` (user iterator) => `let mut it_ = iter; loop { let x = match it_.next() { Some(v) => v, None => { break; } }; B }`."""
    m = _re.search(r'for\s+(\w+)\s+in\s+iter\s*\{', body)
    if not m:
        return body, 0
    ob, cb = _block(body, m)
    var = m.group(1)
    return (body[:m.start()] + 'let mut it_ = iter; loop { let %s = match it_.next() { Some(v) => v, None => { break; } };' % var
            + body[ob + 1:cb] + '}' + body[cb + 1:]), 1


RULES = {
    'P7_keys_iter': [keys_iter],
    'P8_queue_iter': [queue_iter],
    'N7_for_iter': [for_user_iter],
    # field reborrows of the projection: `let states = self.states;`, `let futures = unsafe { self.futures.as_mut().get_unchecked_mut() };`
    'N3_group_lets': [
        (r'let\s+states\s*=\s*self\.states;', ''),
        (r'let\s+(futures|streams)\s*=\s*unsafe\s*\{\s*self\.\1\.as_mut\(\)\.get_unchecked_mut\(\)\s*\};', ''),
        (r'(?<![\w.])states\[', 'self.states['),
    ],
    # P1: `let future = unsafe { Pin::new_unchecked(&mut futures[index]) }; match future.poll(&mut cx)`; the
    # selection expression is kept as the member index
    'P1_member_poll': [
        (r'let\s+future\s*=\s*unsafe\s*\{\s*Pin::new_unchecked\(&mut\s+futures\[(\w+)\]\)\s*\};\s*match\s+future\.poll\(&mut cx\)',
         r'match self.futures.poll_member(\1, &mut cx, &mut self.wakers)'),
    ],
    'P1_member_poll_next': [
        (r'let\s+stream\s*=\s*unsafe\s*\{\s*Pin::new_unchecked\(&mut\s+streams\[(\w+)\]\)\s*\};\s*match\s+stream\.poll_next\(&mut cx\)',
         r'match self.streams.poll_next_member(\1, &mut cx, &mut self.wakers)'),
    ],
    # P2: slab removal through the un-pinned reborrow
    'P2_member_remove': [
        (r'(?<![\w.])(futures|streams)\.remove\(', r'self.\1.remove('),
    ],
    # P8 constructors / N6 PollVec
    'P8_group_ctor': [
        (r'PollVec::new\(', 'pollvec_new('),
        (r'BTreeSet::new\(\)', 'KeySet::new()'),
        (r'smallvec!\[\]', 'KeyQueue::new()'),
    ],
    'N6_states_resize': [
        (r'self\.states\.resize\((\w+)\);', r'pollvec_resize(&mut self.states, \1);'),
    ],
    # N3: `self.group.as_mut().poll_next_inner(cx)` on the projected (pinned) field
    'N3_group_as_mut': [
        (r'self\.group\.as_mut\(\)\.', 'self.group.'),
    ],
}
