#!/usr/bin/env python3
"""vx -- contract-based verification driver (see /verif/DESIGN.md).

  vx gen UNIT [CFG]            write gen/dev/UNIT.CFG.rs and print its path
  vx run UNIT [CFG] [--vac]    generate + verus, print diagnostics (dev loop)
  vx check PROP [--tier T]     the registered check: exit 0 / 1 (VIOLATION) / 2 (undecided)
  vx list                      units, configs, props
"""
import sys
import os
import re
import json
import time
import subprocess
import hashlib
import shutil
from concurrent.futures import ThreadPoolExecutor

sys.path.insert(0, os.path.dirname(os.path.dirname(os.path.abspath(__file__))))
from vx import gen as G
from vx.rustlex import ExtractError

VERIF = G.VERIF
VERUS = shutil.which('verus') or '/opt/veriftools/verus/verus'
RLIMIT = os.environ.get('VX_RLIMIT', '30')


CACHE_DIR = '/var/tmp/vx-cache'
_VERUS_VERSION = None


def verus_version():
    global _VERUS_VERSION
    if _VERUS_VERSION is None:
        try:
            _VERUS_VERSION = subprocess.run([VERUS, '--version'], capture_output=True, text=True, timeout=60).stdout.strip()
        except Exception:
            _VERUS_VERSION = 'unknown'
    return _VERUS_VERSION


def run_verus(path, rlimit=RLIMIT, seed=None, use_cache=False):
    """Run Verus on one generated file.  With use_cache (quick tier only) the verdict for a byte-identical
    generated file (same Verus version, rlimit, seed) is reused: the generated text is a pure function of
    /repo's working tree and /verif/units, and Verus/Z3 are deterministic for a given seed."""
    cmd = [VERUS, path, '--output-json', '--time', '--multiple-errors', '20',
           '--error-format=json', '--rlimit', str(rlimit)]
    if seed is not None:
        cmd += ['--smt-option', 'smt.random_seed=%d' % seed]
    key = None
    if use_cache and not os.environ.get('VX_NO_CACHE'):
        h = hashlib.sha256()
        h.update(open(path, 'rb').read())
        h.update(('|%s|%s|%s|%s' % (verus_version(), rlimit, seed, os.path.basename(path))).encode())
        key = os.path.join(CACHE_DIR, h.hexdigest() + '.json')
        if os.path.exists(key):
            try:
                res = json.load(open(key))
                res['cached'] = True
                res['cmd'] = ' '.join(cmd)
                return res
            except Exception:
                pass
    res = _run_verus(cmd, path)
    if key and not res.get('tool_error'):
        try:
            os.makedirs(CACHE_DIR, exist_ok=True)
            if hash(key) % 200 == 0:   # occasional pruning: keep the newest 6000 verdicts
                ents = sorted((os.path.getmtime(os.path.join(CACHE_DIR, x)), x) for x in os.listdir(CACHE_DIR) if x.endswith('.json'))
                for _, x in ents[:-6000]:
                    try:
                        os.remove(os.path.join(CACHE_DIR, x))
                    except OSError:
                        pass
            tmp = key + '.tmp%d' % os.getpid()
            with open(tmp, 'w') as f:
                json.dump(res, f)
            os.replace(tmp, key)
        except Exception:
            pass
    return res


def _run_verus(cmd, path):
    t0 = time.time()
    try:
        p = subprocess.run(cmd, capture_output=True, text=True, timeout=900, cwd=os.path.dirname(path))
    except subprocess.TimeoutExpired:
        return dict(ok=False, tool_error='verus timeout (900 s)', diags=[], summary={}, wall=time.time() - t0, cmd=' '.join(cmd))
    wall = time.time() - t0
    summary = {}
    try:
        summary = json.loads(p.stdout)
    except Exception:
        pass
    diags = []
    for ln in p.stderr.split('\n'):
        ln = ln.strip()
        if ln.startswith('{'):
            try:
                diags.append(json.loads(ln))
            except Exception:
                pass
    vr = summary.get('verification-results', {})
    res = dict(ok=bool(vr.get('success')), verified=vr.get('verified', 0), errors=vr.get('errors', 0),
               diags=diags, summary=summary, wall=wall, cmd=' '.join(cmd), rc=p.returncode, tool_error=None,
               stderr_tail=p.stderr[-2000:])
    if not vr:
        res['tool_error'] = 'no verification-results (rc=%s): %s' % (p.returncode, p.stderr[-1500:])
    return res


class FileMap:
    """Maps generated-file lines to origin lib, enclosing function, @OBL tags."""

    def __init__(self, text, unit_props):
        self.lines = text.split('\n')
        self.origin = []
        self.fn = []
        self.src = []
        cur_o, cur_props = None, unit_props
        cur_fn, cur_src, in_fn = None, None, False
        cur_fp = None
        self.fn_props = []
        self.origin_props = {}
        for ln in self.lines:
            m = re.match(r'\s*// @ORIGIN (\S+) props=(\S*)', ln)
            if m:
                cur_o = m.group(1)
                self.origin_props[cur_o] = [p for p in m.group(2).split(',') if p]
            m = re.match(r'\s*// @FN (\S+) src=(\S+)(?: props=(\S+))?', ln)
            if m:
                cur_fn, cur_src, in_fn = m.group(1), m.group(2), True
                cur_fp = m.group(3).split(',') if m.group(3) else None
            elif '// @ENDFN' in ln:
                in_fn = False
                cur_fn, cur_src, cur_fp = None, None, None
            elif not in_fn:
                m = re.match(r'\s*(?:pub\s+)?(?:open\s+|closed\s+|broadcast\s+)*(?:proof\s+|spec\s+|exec\s+)?fn\s+(\w+)', ln)
                if m:
                    cur_fn = 'vx::' + m.group(1)
            self.origin.append(cur_o)
            self.fn.append(cur_fn)
            self.src.append(cur_src)
            self.fn_props.append(cur_fp)

    def tags_at(self, l0, l1):
        tags = []
        for k in range(max(l0 - 1, 0), min(l1, len(self.lines))):
            for m in re.finditer(r'@OBL (\S+)(?:\s+props=(\S+))?', self.lines[k]):
                tags.append((m.group(1), m.group(2).split(',') if m.group(2) else None))
        return tags


RLIMIT_PAT = re.compile(r'resource limit|rlimit|timed? ?out', re.I)


def classify(diags, fmap, genfile, unit, cfg):
    """Return (failures, undecided) lists of dicts."""
    fails, undec = [], []
    base = os.path.basename(genfile)
    for d in diags:
        if d.get('level') != 'error':
            continue
        msg = d.get('message', '')
        if msg.startswith('aborting due to'):
            continue
        spans = []
        for s0 in d.get('spans', []):
            s = s0
            # a span inside a macro expansion (panic!, unreachable!, assert!): fall back to its call site
            while s is not None and os.path.basename(s.get('file_name', '')) != base:
                exp = s.get('expansion')
                s = exp.get('span') if exp else None
                if s is not None:
                    s = dict(s, is_primary=s0.get('is_primary'), label=s0.get('label'))
            if s is not None:
                spans.append(s)
        prim = [s for s in spans if s.get('is_primary')] or spans
        line = prim[0]['line_start'] if prim else 0
        tags = []
        for s in spans:
            # the failed clause is the primary span (post-conditions, invariants) or the secondary
            # span labelled "failed precondition"; "at this exit" spans cover whole blocks
            if s.get('is_primary') or 'failed' in (s.get('label') or ''):
                if s['line_end'] - s['line_start'] <= 6:
                    tags += fmap.tags_at(s['line_start'], s['line_end'])
        fn = fmap.fn[line - 1] if 0 < line <= len(fmap.fn) else None
        origin = fmap.origin[line - 1] if 0 < line <= len(fmap.origin) else None
        src = fmap.src[line - 1] if 0 < line <= len(fmap.src) else None
        rec = dict(unit=unit, cfg=cfg, message=msg, line=line, fn=fn, origin=origin, src=src,
                   tags=[t[0] for t in tags], rendered=d.get('rendered', ''), genfile=genfile)
        props = set()
        explicit = False
        for (t, ps) in tags:
            if ps:
                explicit = True
                props |= set(p for p in ps if p != 'none')
        if not props and not explicit:
            fp = fmap.fn_props[line - 1] if 0 < line <= len(fmap.fn_props) else None
            props = set(fp) if fp else set(fmap.origin_props.get(origin, []))
        rec['props'] = sorted(props)
        verification_msgs = ('postcondition not satisfied', 'precondition not satisfied', 'invariant not satisfied',
                             'assertion failed', 'possible arithmetic', 'decreases not satisfied', 'possible division by zero',
                             'loop invariant', 'might not', 'possible bit shift', 'unreachable', 'unable to prove', 'cannot prove')
        if d.get('code'):
            # rustc error code (E0277 ...): the extracted text is outside the Verus subset
            rec['kind'] = 'tool'
            undec.append(rec)
        elif RLIMIT_PAT.search(msg):
            rec['kind'] = 'rlimit'
            undec.append(rec)
        elif any(v in msg for v in verification_msgs) or 'failed' in msg or 'not satisfied' in msg:
            rec['kind'] = 'refuted'
            fails.append(rec)
        else:
            # type errors, unsupported constructs, parse errors: tool limit, not a violation
            rec['kind'] = 'tool'
            undec.append(rec)
    return fails, undec


def count_obligations(text):
    """Named obligations (@OBL tags) per prop and total clause count."""
    obl = []
    for m in re.finditer(r'@OBL (\S+)(?:\s+props=(\S+))?', text):
        obl.append((m.group(1), m.group(2).split(',') if m.group(2) else None))
    return obl


def gen_unit(units, name, cfg, outdir, vac=False):
    text, log = G.generate(units, name, cfg, vac)
    path = os.path.join(outdir, '%s__%s%s.rs' % (name, cfg, '_vac' if vac else ''))
    with open(path, 'w') as f:
        f.write(text)
    return path, text, log


def cmd_gen(args):
    units = G.load_units()
    name = args[0]
    cfgs = [args[1]] if len(args) > 1 else units[name].configs
    outdir = os.path.join(VERIF, 'gen', 'dev')
    os.makedirs(outdir, exist_ok=True)
    for cfg in cfgs:
        path, text, log = gen_unit(units, name, cfg, outdir)
        print(path)


def cmd_run(args):
    vac = '--vac' in args
    args = [a for a in args if not a.startswith('--')]
    units = G.load_units()
    name = args[0]
    cfgs = [args[1]] if len(args) > 1 else units[name].configs
    outdir = os.path.join(VERIF, 'gen', 'dev')
    os.makedirs(outdir, exist_ok=True)
    rc = 0
    for cfg in cfgs:
        try:
            path, text, log = gen_unit(units, name, cfg, outdir, vac)
        except ExtractError as e:
            print('EXTRACT-ERROR %s.%s: %s' % (name, cfg, e))
            rc = 2
            continue
        r = run_verus(path)
        print('== %s.%s: verified=%s errors=%s wall=%.1fs  %s' % (name, cfg, r.get('verified'), r.get('errors'), r['wall'], path))
        if r.get('tool_error'):
            print(r['tool_error'])
        fmap = FileMap(text, units[name].props)
        fails, undec = classify(r['diags'], fmap, path, name, cfg)
        for d in r['diags']:
            if d.get('level') in ('error',) and not d.get('message', '').startswith('aborting'):
                print(d.get('rendered', d.get('message')))
        for f in fails + undec:
            print('  -> %s fn=%s tags=%s props=%s line=%d' % (f['kind'], f['fn'], f['tags'], f['props'], f['line']))
        if fails or undec or r.get('tool_error'):
            rc = 1
    return rc


def cmd_list(args):
    units = G.load_units()
    for n, u in units.items():
        print('%-28s %s configs=%s props=%s uses=%s' % (n, 'unit' if u.is_unit else 'lib ', ','.join(u.configs), ','.join(u.props), ','.join(u.uses)))


def main():
    if len(sys.argv) < 2:
        print(__doc__)
        return 2
    c = sys.argv[1]
    if c == 'gen':
        return cmd_gen(sys.argv[2:])
    if c == 'run':
        return cmd_run(sys.argv[2:])
    if c == 'list':
        return cmd_list(sys.argv[2:])
    if c == 'check':
        # an internal error of the machinery must never look like a verdict: exit 2 (undecided), not Python's exit 1
        try:
            from vx import check
            return check.cmd_check(sys.argv[2:])
        except SystemExit:
            raise
        except BaseException as e:
            import traceback
            traceback.print_exc()
            print('UNDECIDED {"kind": "internal", "message": %s}' % json.dumps(repr(e)[:300]))
            return 2
    print(__doc__)
    return 2


if __name__ == '__main__':
    sys.exit(main() or 0)
