"""Rewrite rules for the concurrent-stream units co_for_each / co_try_for_each / co_from_stream
(author: costb).  Every rule is a port/normalisation in the sense of DESIGN 2.2/2.3; everything the
rules do not touch is the original text of /repo."""
import re as _re
from . import rustlex as _lex


def _while_let_some(body):
    """N7: `while let Some(X) = E { B }` -> `loop { let X = match E { Some(v_) => v_, None => { break; } }; B }`
    (Rust's own meaning of `while let`; Verus gives no exit fact for `while let`, the `loop` form lets
    the annotation state what holds after the `None`)."""
    k = 0
    while True:
        masked = _lex.mask(body)
        m = _re.search(r'\bwhile\s+let\s+Some\((\w+)\)\s*=\s*', masked)
        if not m:
            return body, k
        ob = _lex.find_body_open(masked, m.end())
        if ob < 0:
            return body, k
        expr = body[m.end():ob].strip()
        body = (body[:m.start()] + 'loop { let %s = match %s { Some(v_) => v_, None => { break; } };' % (m.group(1), expr)
                + body[ob + 1:])
        k += 1


def _race2_choice(body):
    """P (Race2 at arity 2, assumed contract C06): `let a = async {A}; let b = async {B}; match (b, a).race().await {`
    -> `match if race2_first_wins() { iter.cancelled_next(); B } else { consumer.cancelled_progress(); A } {`
    The two async-block bodies are kept verbatim; the race is a nondeterministic choice of the branch
    that completes; the branch that loses was polled zero or more times and then dropped, which the
    two `cancelled_*` port calls stand for (they carry the same protocol preconditions as the full calls)."""
    masked = _lex.mask(body)
    ma = _re.search(r'let\s+a\s*=\s*async\s*\{', masked)
    mb = _re.search(r'let\s+b\s*=\s*async\s*\{', masked)
    mr = _re.search(r'match\s*\(\s*b\s*,\s*a\s*\)\s*\.race\(\)\s*\.await\s*\{', masked)
    if not (ma and mb and mr) or not (ma.start() < mb.start() < mr.start()):
        return body, 0
    a_ob = ma.end() - 1
    a_cb = _lex.match_close(masked, a_ob)
    b_ob = mb.end() - 1
    b_cb = _lex.match_close(masked, b_ob)
    sa = _re.match(r'\s*;', masked[a_cb + 1:])
    sb = _re.match(r'\s*;', masked[b_cb + 1:])
    if not (sa and sb):
        return body, 0
    # nothing but whitespace may sit between the three statements
    if masked[a_cb + 1 + sa.end():mb.start()].strip() or masked[b_cb + 1 + sb.end():mr.start()].strip():
        return body, 0
    A = body[a_ob + 1:a_cb]
    B = body[b_ob + 1:b_cb]
    new = ('match if race2_first_wins() { iter.cancelled_next(); %s } else { consumer.cancelled_progress(); %s } {' % (B, A))
    return body[:ma.start()] + new + body[mr.end():], 1


RULES = {
    # N3 pin erasure of a hand-written projection: `let this = unsafe { self.get_unchecked_mut() };`
    'N3_get_unchecked': [
        (r'let\s+(?:mut\s+)?this\s*=\s*unsafe\s*\{\s*self\.get_unchecked_mut\(\)\s*\};', ''),
    ],
    # N3: `x.as_mut()` on a projected pinned field / a pinned local -> `x`
    'N3_fu_group_as_mut': [
        (r'\bself\.group\.as_mut\(\)', 'self.group'),
    ],
    'N3_consumer_as_mut': [
        (r'\bconsumer\.as_mut\(\)', 'consumer'),
    ],
    # N3: `pin!(x)` -> `x` (stack pinning; address stability is dropped, every use is kept)
    'N3_pin_macro': [
        (r'\bpin!\(\s*([\w\.]+)\s*\)', r'\1'),
    ],
    # N4: panic!/unreachable! stay in the text; a ghost-only obligation call (`requires false`, tagged)
    # is put in front so that reaching them is reported under the right property.
    'N4_panic_obl': [
        (r'(?<![\w!])(panic!\()', r'co_reached_panic(); \1'),
    ],
    'N4_unreachable_obl': [
        (r'(?<![\w!])(unreachable!\()', r'co_reached_unreachable(); \1'),
    ],
    # P1 child poll of the single inner future held in an Option: `unsafe { Pin::new_unchecked(fut) }.poll(cx)`
    'P1_pin_poll': [
        (r'unsafe\s*\{\s*Pin::new_unchecked\(fut\)\s*\}\s*\.poll\(cx\)', 'fut.poll(cx)'),
    ],
    # closure port: `(self.f)(t)` -> `self.f.call(t)` (ghost call log)
    'P_closure_call': [
        (r'\(self\.f\)\((\w+)\)', r'self.f.call(\1)'),
    ],
    # P9 atomics: `Arc::new(AtomicUsize::new(k))` -> model counter cell; load/fetch_add/fetch_sub/clone keep their text
    'P9_arc_atomic_new': [
        (r'Arc::new\(\s*AtomicUsize::new\((\w+)\)\s*\)', r'SharedCount::new(\1)'),
    ],
    # P8/P9 coupling: the members of the group hold clones of the counter Arc and decrement it when they
    # complete inside `group.next()`; the aliasing is made explicit by passing the cell (cf. P5 waker.rs).
    'P8_group_next': [
        (r'\bself\.group\.next\(\)\.await', 'self.group.next(&mut self.count).await'),
    ],
    'N7_while_let_some': [_while_let_some],
    'P_race2_choice': [_race2_choice],
}
