"""Rewrite rules for the direct-context combinators (chain, wait_until, race_ok, maybe_done)."""
import re as _re
from . import rustlex as _lex


def ready_macro(body):
    """N5: `ready!(E)` -> its definition in core::task:
    `match E { Poll::Ready(t_) => t_, Poll::Pending => return Poll::Pending }` (macro expansion, no change of meaning)."""
    k = 0
    while True:
        masked = _lex.mask(body)
        m = _re.search(r'\bready!\(', masked)
        if not m:
            return body, k
        op = m.end() - 1
        cl = _lex.match_close(masked, op)
        e = body[op + 1:cl]
        body = body[:m.start()] + 'match %s { Poll::Ready(t_) => t_, Poll::Pending => { return Poll::Pending; } }' % e.strip() + body[cl + 1:]
        k += 1


def _body_of(body, m):
    ob = m.end() - 1
    cb = _lex.match_close(_lex.mask(body), ob)
    return ob, cb


def zip3_to_index(body):
    """P3 (race_ok/array poll): the lock-step iteration
         let futures = iter_pin_mut(self.futures);
         for ((fut, out), st) in futures.zip(self.errors.iter_mut()).zip(self.error_states.iter_mut()) { B }
       visits element i of the three N-element containers together, i = 0..N in order.  It becomes
         for i in 0..N { B' }   with st := self.error_states[i]  (fut / out are ported by separate logged rules)
       and a leading `if C { continue; } REST` becomes `if !(C) { REST }`
       (Verus has no `continue` in for-loops)."""
    m0 = _re.search(r'let\s+futures\s*=\s*iter_pin_mut\(self\.futures\);', body)
    m = _re.search(r'for\s*\(\(fut,\s*out\),\s*st\)\s*in\s*futures\s*\.zip\(self\.errors\.iter_mut\(\)\)\s*\.zip\(self\.error_states\.iter_mut\(\)\)\s*\{', body)
    if not m0 or not m or m0.end() > m.start():
        return body, 0
    ob, cb = _body_of(body, m)
    inner = body[ob + 1:cb]
    g = _re.match(r'\s*if\s+([^{};]+?)\s*\{\s*continue;\s*\}', inner)
    if g:
        inner = ' if !(%s) {' % g.group(1) + inner[g.end():] + '}\n'
    if _re.search(r'\bcontinue\b|\bbreak\b', _lex.mask(inner)):
        raise _lex.ExtractError('zip3_to_index: continue/break in loop body not supported')
    inner = _re.sub(r'\bst\.', 'self.error_states[i].', inner)
    new = body[:m0.start()] + body[m0.end():m.start()] + 'for i in 0..N {' + inner + '}' + body[cb + 1:]
    return new, 1


def zip2_filter_to_index(body):
    """P3 (race_ok/array drop):
         for (st, err) in self.error_states.iter_mut().zip(self.errors.iter_mut()).filter(|(st, _err)| PRED(st)) { B }
       -> for i in 0..N { if PRED(self.error_states[i]) { B' } }   with st := self.error_states[i]."""
    m = _re.search(r'for\s*\(st,\s*err\)\s*in\s*self\s*\.error_states\s*\.iter_mut\(\)\s*\.zip\(self\.errors\.iter_mut\(\)\)\s*\.filter\(\|\(st,\s*_err\)\|\s*([^{}]*?)\)\s*\{', body)
    if not m:
        return body, 0
    ob, cb = _body_of(body, m)
    inner = body[ob + 1:cb]
    if _re.search(r'\bcontinue\b|\bbreak\b', _lex.mask(inner)):
        raise _lex.ExtractError('zip2_filter_to_index: continue/break in loop body not supported')
    pred = _re.sub(r'\bst\.', 'self.error_states[i].', m.group(1).strip())
    inner = _re.sub(r'\bst\.', 'self.error_states[i].', inner)
    return body[:m.start()] + 'for i in 0..N { if %s {%s} }' % (pred, inner) + body[cb + 1:], 1


def map_collect_to_index(body):
    """P3 (race_ok/vec poll): `iter_pin_mut(elems.as_mut()).map(|e| BODY).collect()` (collect into Vec, element order) ->
       `{ let mut out_ = Vec::new(); let nm_ = elems.len(); for k in 0..nm_ { out_.push(BODY[e := elems[k]]); } out_ }`."""
    m = _re.search(r'iter_pin_mut\(elems\.as_mut\(\)\)\s*\.map\(', body)
    if not m:
        return body, 0
    op = m.end() - 1
    cl = _lex.match_close(_lex.mask(body), op)
    clo = body[op + 1:cl]
    g = _re.match(r'\s*\|e\|\s*', clo)
    t = _re.match(r'\s*\.collect\(\)', body[cl + 1:])
    if not g or not t:
        return body, 0
    expr = _re.sub(r'\be\.', 'elems[k].', clo[g.end():].strip())
    new = '{ let mut out_ = Vec::new(); let nm_ = elems.len(); for k in 0..nm_ { out_.push(%s); } out_ }' % expr
    return body[:m.start()] + new + body[cl + 1 + t.end():], 1


def into_iter_map_collect(body):
    """P3 (race_ok/vec constructor): `self.into_iter().map(|fut| EXPR).collect()` (element order preserved) ->
       `{ let mut v_ = Vec::new(); let nf_ = futures.len(); for i in 0..nf_ { let fut = futures.child(i); v_.push(EXPR); } v_ }`
       where `futures` is the receiver (N_self_param) and `child(i)` the i-th element moved out by the iterator."""
    m = _re.search(r'\bself\s*\.into_iter\(\)\s*\.map\(', body)
    if not m:
        return body, 0
    op = m.end() - 1
    cl = _lex.match_close(_lex.mask(body), op)
    clo = body[op + 1:cl]
    g = _re.match(r'\s*\|fut\|\s*', clo)
    t = _re.match(r'\s*\.collect\(\)', body[cl + 1:])
    if not g or not t:
        return body, 0
    new = '{ let mut v_ = Vec::new(); let nf_ = futures.len(); for i in 0..nf_ { let fut = futures.child(i); v_.push(%s); } v_ }' % clo[g.end():].strip()
    return body[:m.start()] + new + body[cl + 1 + t.end():], 1


RULES = {
    'N5_ready_macro': [ready_macro],
    'P3_map_collect_index': [map_collect_to_index],
    'P3_into_iter_map_collect': [into_iter_map_collect],
    'P3_zip3_index_N': [zip3_to_index],
    'P3_zip2_filter_index_N': [zip2_filter_to_index],
}
