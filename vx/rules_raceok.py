"""Rewrite rules for the direct-context combinators (chain, wait_until, race_ok, maybe_done)."""
import re as _re
from . import rustlex as _lex


def ready_macro(body):
    """N5: `ready!(E)` -> its definition in core::task:
    `match E { Poll::Ready(t_) => t_, Poll::Pending => return Poll::Pending }` (macro expansion, no change of meaning)."""
    k = 0
    while True:
        masked = _lex.mask(body)
        m = _re.search(r'\bready!\(', masked)
        if not m:
            return body, k
        op = m.end() - 1
        cl = _lex.match_close(masked, op)
        e = body[op + 1:cl]
        body = body[:m.start()] + 'match %s { Poll::Ready(t_) => t_, Poll::Pending => { return Poll::Pending; } }' % e.strip() + body[cl + 1:]
        k += 1


def _body_of(body, m):
    ob = m.end() - 1
    cb = _lex.match_close(_lex.mask(body), ob)
    return ob, cb


def zip3_to_index(body):
    """P3 (race_ok/array poll): the lock-step iteration
         let futures = iter_pin_mut(self.futures);
         for ((fut, out), st) in futures.zip(self.errors.iter_mut()).zip(self.error_states.iter_mut()) { B }
       visits element i of the three N-element containers together, i = 0..N in order.  It becomes
         for i in 0..N { B' }   with st := self.error_states[i]  (fut / out are ported by separate logged rules)
       and a leading `if C { continue; } REST` becomes `if !(C) { REST }`
       (Verus has no `continue` in for-loops)."""
    m0 = _re.search(r'let\s+futures\s*=\s*iter_pin_mut\(self\.futures\);', body)
    m = _re.search(r'for\s*\(\(fut,\s*out\),\s*st\)\s*in\s*futures\s*\.zip\(self\.errors\.iter_mut\(\)\)\s*\.zip\(self\.error_states\.iter_mut\(\)\)\s*\{', body)
    if not m0 or not m or m0.end() > m.start():
        return body, 0
    ob, cb = _body_of(body, m)
    inner = body[ob + 1:cb]
    g = _re.match(r'\s*if\s+([^{};]+?)\s*\{\s*continue;\s*\}', inner)
    if g:
        inner = ' if !(%s) {' % g.group(1) + inner[g.end():] + '}\n'
    if _re.search(r'\bcontinue\b', _lex.mask(inner)):
        raise _lex.ExtractError('zip3_to_index: continue in loop body not supported')
    inner = _re.sub(r'\bst\.', 'self.error_states[i].', inner)
    new = body[:m0.start()] + body[m0.end():m.start()] + 'for i in 0..N {' + inner + '}' + body[cb + 1:]
    return new, 1


def zip2_filter_to_index(body):
    """P3 (race_ok/array drop):
         for (st, err) in self.error_states.iter_mut().zip(self.errors.iter_mut()).filter(|(st, _err)| PRED(st)) { B }
       -> for i in 0..N { if PRED(self.error_states[i]) { B' } }   with st := self.error_states[i]."""
    m = _re.search(r'for\s*\(st,\s*err\)\s*in\s*self\s*\.error_states\s*\.iter_mut\(\)\s*\.zip\(self\.errors\.iter_mut\(\)\)\s*\.filter\(\|\(st,\s*_err\)\|\s*([^{}]*?)\)\s*\{', body)
    if not m:
        return body, 0
    ob, cb = _body_of(body, m)
    inner = body[ob + 1:cb]
    if _re.search(r'\bcontinue\b|\bbreak\b', _lex.mask(inner)):
        raise _lex.ExtractError('zip2_filter_to_index: continue/break in loop body not supported')
    pred = _re.sub(r'\bst\.', 'self.error_states[i].', m.group(1).strip())
    inner = _re.sub(r'\bst\.', 'self.error_states[i].', inner)
    return body[:m.start()] + 'for i in 0..N { if %s {%s} }' % (pred, inner) + body[cb + 1:], 1


def map_collect_to_index(body):
    """P3 (race_ok/vec poll): `iter_pin_mut(elems.as_mut()).map(|e| BODY).collect()` (collect into Vec, element order) ->
       `{ let mut out_ = Vec::new(); let nm_ = elems.len(); for k in 0..nm_ { out_.push(BODY[e := elems[k]]); } out_ }`."""
    m = _re.search(r'iter_pin_mut\(elems\.as_mut\(\)\)\s*\.map\(', body)
    if not m:
        return body, 0
    op = m.end() - 1
    cl = _lex.match_close(_lex.mask(body), op)
    clo = body[op + 1:cl]
    g = _re.match(r'\s*\|e\|\s*', clo)
    t = _re.match(r'\s*\.collect\(\)', body[cl + 1:])
    if not g or not t:
        return body, 0
    expr = _re.sub(r'\be\.', 'elems[k].', clo[g.end():].strip())
    new = '{ let mut out_ = Vec::new(); let nm_ = elems.len(); for k in 0..nm_ { out_.push(%s); } out_ }' % expr
    return body[:m.start()] + new + body[cl + 1 + t.end():], 1


def into_iter_map_collect(body):
    """P3 (race_ok/vec constructor): `self.into_iter().map(|fut| EXPR).collect()` (element order preserved) ->
       `{ let mut v_ = Vec::new(); let nf_ = futures.len(); for i in 0..nf_ { let fut = futures.child(i); v_.push(EXPR); } v_ }`
       where `futures` is the receiver (N_self_param) and `child(i)` the i-th element moved out by the iterator."""
    m = _re.search(r'\bself\s*\.into_iter\(\)\s*\.map\(', body)
    if not m:
        return body, 0
    op = m.end() - 1
    cl = _lex.match_close(_lex.mask(body), op)
    clo = body[op + 1:cl]
    g = _re.match(r'\s*\|fut\|\s*', clo)
    t = _re.match(r'\s*\.collect\(\)', body[cl + 1:])
    if not g or not t:
        return body, 0
    new = '{ let mut v_ = Vec::new(); let nf_ = futures.len(); for i in 0..nf_ { let fut = futures.child(i); v_.push(%s); } v_ }' % clo[g.end():].strip()
    return body[:m.start()] + new + body[cl + 1 + t.end():], 1


RULES = {
    'N5_ready_macro': [ready_macro],
    'P3_map_collect_index': [map_collect_to_index],
    'P3_into_iter_map_collect': [into_iter_map_collect],
    'P3_zip3_index_N': [zip3_to_index],
    'P3_zip2_filter_index_N': [zip2_filter_to_index],
}


# ---------------------------------------------------------------------------------------------------------
# Tuple impls (compiler expansion of src/stream/chain/tuple.rs, src/future/race_ok/tuple/mod.rs).
# Field letter X <-> tuple position pos(X) = index in 'ABCDEFGHIJKL' (the constructor's destructuring
# `let (A, B, ..): (A, B, ..) = self;` is verified to be in that order by T_ctor_destructure and every field X is
# verified to be initialised from variable X).  Index constants are NOT assumed: they are computed from the
# declaration order of the real `enum Indexes` (Rust: the i-th variant of a fieldless enum without explicit
# discriminants has discriminant i, `as usize` yields it), so a permuted enum yields permuted constants.
# ---------------------------------------------------------------------------------------------------------
TLETTERS = 'ABCDEFGHIJKL'


def _tpos(letter):
    return TLETTERS.index(letter)


def _enum_order(text):
    """variants of `#[repr(usize)] enum Indexes { A, B, }` in declaration order (None if not exactly letters)."""
    m = _re.search(r'#\[repr\(usize\)\]\s*enum Indexes\s*\{([^{}]*)\}', text)
    if not m:
        return None, None
    vs = [x.strip() for x in m.group(1).split(',') if x.strip()]
    if not vs or any(not _re.fullmatch(r'[A-L]', v) for v in vs) or len(set(vs)) != len(vs):
        return None, None
    return vs, m


def chain_mod_consts(body):
    """`MOD::LEN` / `MOD::X` of the chain tuple impl -> the values the real `mod MOD { enum Indexes {..}
    const X: usize = Indexes::X as usize; const LEN: usize = [Indexes::A, ..].len(); }` gives them (read from
    the expansion and checked: every const must have exactly this form, else lost anchor)."""
    m = _re.search(r'\b(chain_\d+)::LEN\b', body)
    if not m:
        return body, 0
    mod = m.group(1)
    from . import gen as _gen
    src = _gen._read_repo('expanded')
    a, ob, e = _lex.find_item(src, r'\bmod\s+%s\b' % mod)
    item = _lex.strip_comments(src[a:e])
    bad = _lex.ExtractError('T_chain_mod_consts: `mod %s` does not have the expected form (lost anchor)' % mod)
    vs, em = _enum_order(item)
    if vs is None:
        raise bad
    consts = dict(_re.findall(r'pub\(super\)\s+const\s+([A-L]):\s*usize\s*=\s*Indexes::([A-L])\s+as\s+usize;', item))
    if sorted(consts) != sorted(vs) or any(k != v for k, v in consts.items()) or len(_re.findall(r'\bconst\b', item)) != len(vs) + 1:
        raise bad
    lm = _re.search(r'pub\(super\)\s+const\s+LEN:\s*usize\s*=\s*\[([^\]]*)\]\.len\(\);', item)
    if not lm:
        raise bad
    elems = [x.strip() for x in lm.group(1).split(',') if x.strip()]
    if any(not _re.fullmatch(r'Indexes::[A-L]', x) for x in elems):
        raise bad
    k = 0
    body, c = _re.subn(r'\b%s::LEN\b' % mod, '%dusize' % len(elems), body)
    k += c
    for x in vs:
        body, c = _re.subn(r'\b%s::%s\b' % (mod, x), '%dusize' % vs.index(x), body)
        k += c
    if _re.search(r'\b%s::' % mod, body):
        raise bad
    return body, k


def chain_child_poll(body):
    """`let fut = unsafe { Pin::new_unchecked(&mut self.X) }; match fut.poll_next(cx)` -> `match self.streams.poll_next_cx(pos(X), cx)`."""
    n = 0

    def rep(m):
        nonlocal n
        n += 1
        return 'match self.streams.poll_next_cx(%d, cx)' % _tpos(m.group(1))
    body = _re.sub(r'let\s+fut\s*=\s*unsafe\s*\{\s*Pin::new_unchecked\(&mut self\.([A-L])\)\s*\};\s*match\s+fut\.poll_next\(cx\)', rep, body)
    return body, n


def ctor_letter_fields(body, target):
    """In the struct literal of the constructor the letter fields (`A, B` shorthand, or `A: A.into_future(), ..`) must be exactly
    the letters A.. (each field X from variable X); they become `TARGET`."""
    m = _re.search(r'((?:\s*[A-L](?::\s*[A-L]\.into_future\(\))?\s*,?)+)\s*\}\s*\}?\s*$', body)
    if not m:
        return body, 0
    seg = m.group(1)
    items = [x.strip() for x in seg.split(',') if x.strip()]
    letters = []
    for it in items:
        g = _re.fullmatch(r'([A-L])(?::\s*([A-L])\.into_future\(\))?', it)
        if not g or (g.group(2) and g.group(2) != g.group(1)):
            return body, 0
        letters.append(g.group(1))
    if sorted(letters) != list(TLETTERS[:len(letters)]):
        return body, 0
    s = m.start(1)
    return body[:s] + ' ' + target + ' ' + body[s + len(seg):], 1


def indexes_enum_local(body):
    """race_ok tuple poll: the function-local `#[repr(usize)] enum Indexes { A, B, }` is removed and every
    `Indexes::X as usize` becomes the discriminant the declaration gives it (declaration order)."""
    vs, m = _enum_order(body)
    if vs is None:
        return body, 0
    body = body[:m.start()] + body[m.end():]
    k = 1
    for x in vs:
        body, c = _re.subn(r'\bIndexes::%s\s+as\s+usize\b' % x, '%dusize' % vs.index(x), body)
        k += c
    if _re.search(r'\bIndexes::', body):
        return body, 0
    return body, k


def rok_child_poll(body):
    """`unsafe { Pin::new_unchecked(&mut self.X) }.poll(cx)` -> `self.futures.poll_cx(pos(X), cx)`."""
    n = 0

    def rep(m):
        nonlocal n
        n += 1
        return 'self.futures.poll_cx(%d, cx)' % _tpos(m.group(1))
    body = _re.sub(r'unsafe\s*\{\s*Pin::new_unchecked\(&mut self\.([A-L])\)\s*\}\s*\.poll\(cx\)', rep, body)
    return body, n


def zip2_filter_for_each(body):
    """race_ok tuple drop: `self.errors_states.iter_mut().zip(self.errors.iter_mut()).filter(|(st, _err)| P(st)).for_each(|(st, err)| { B });`
       -> `for i in 0..LEN_ { if P(self.errors_states[i]) { B' } }` with st := self.errors_states[i] (LEN_ substituted by the unit)."""
    m = _re.search(r'self\s*\.errors_states\s*\.iter_mut\(\)\s*\.zip\(self\.errors\.iter_mut\(\)\)\s*\.filter\(\|\(st,\s*_err\)\|\s*([^{}]*?)\)\s*\.for_each\(\|\(st,\s*err\)\|\s*\{', body)
    if not m:
        return body, 0
    ob = m.end() - 1
    cb = _lex.match_close(_lex.mask(body), ob)
    t = _re.match(r'\s*\)\s*;', body[cb + 1:])
    if not t:
        return body, 0
    inner = body[ob + 1:cb]
    if _re.search(r'\breturn\b', _lex.mask(inner)):
        return body, 0
    pred = _re.sub(r'\bst\.', 'self.errors_states[i].', m.group(1).strip())
    inner = _re.sub(r'\bst\.', 'self.errors_states[i].', inner)
    return body[:m.start()] + 'for i in 0..LEN_ { if %s {%s} }' % (pred, inner) + body[cb + 1 + t.end():], 1


RULES.update({
    'T_chain_mod_consts': [chain_mod_consts],
    'T_chain_child_poll': [chain_child_poll],
    'T_chain_ctor_fields': [lambda b: ctor_letter_fields(b, 'streams: streams,')],
    'T_rok_ctor_fields': [lambda b: ctor_letter_fields(b, 'futures: futures.into_futures(),')],
    'T_indexes_enum_local': [indexes_enum_local],
    'T_rok_child_poll': [rok_child_poll],
    'T_rok_drop_for_each': [zip2_filter_for_each],
    'T_panic_assert_expr': [(r'if !(!?[\w.]+)\s*\{\s*\{\s*::core::panicking::panic_fmt\(format_args!\("[^"]*"\)\);\s*\}\s*\};?', r'assert!(\1);')],
})
