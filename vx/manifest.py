"""Regenerate /verif/MANIFEST.json from the units present (python3 vx/manifest.py)."""
import json, os, sys
sys.path.insert(0, os.path.dirname(os.path.dirname(os.path.abspath(__file__))))
from vx import gen as G

VERIF = G.VERIF
ALL = ['C%02d' % i for i in range(1, 21)]
META = json.load(open(os.path.join(VERIF, 'vx', 'manifest_meta.json')))

def main():
    units = G.load_units()
    claimed = sorted(set(p for u in units.values() if u.is_unit for p in u.props) - set(META.get('never_claim', [])))
    checks = []
    for p in ALL:
        if p not in claimed:
            continue
        m = META['props'].get(p, {})
        us = sorted(u.name for u in units.values() if u.is_unit and p in u.props)
        checks.append(dict(
            property_id=p,
            quick_cmd='./vx.sh check %s --tier quick' % p,
            thorough_cmd='./vx.sh check %s --tier thorough' % p,
            evidence_file='/verif/evidence/%s.json' % p,
            replay_cmd_template='cat {path}',
            engine='vx',
            technique=m.get('technique', 'contract-based deductive verification: Verus (SMT/Z3) on functions extracted mechanically from /repo'),
            level_claimed=dict(category='proof', text=m.get('text', 'Verus discharges every tagged obligation of the units in the cone: ' + ', '.join(us)), design_ref=m.get('design_ref', 'DESIGN.md section 4')),
            level_note=m.get('note', META['default_note']),
        ))
    na = []
    for p in ALL:
        if p not in claimed:
            na.append(dict(property_id=p, reason=META['na'].get(p, 'no contract unit built yet for this property (work in progress); not claimed')))
    man = dict(
        version=1,
        setup_cmd='make -C /verif setup',
        hooks=dict(guard=META['hooks']['guard'], enable=META['hooks']['enable'], baseline_off_cmd=META['hooks']['baseline_off_cmd'],
                   source_commits=META['hooks'].get('source_commits', []), add_only=True),
        engines=[dict(name='vx', path='/verif/vx', serves_properties=claimed,
                      kind_free_text='Python driver: mechanical extraction of real functions from /repo (vx/gen.py, rules in vx/rules.py), contracts in units/*.vx, Verus/Z3 discharges obligations; witness programs replay refutations on the real crate')],
        checks=checks,
        notes=META.get('notes', ''),
        not_applicable=na,
    )
    with open(os.path.join(VERIF, 'MANIFEST.json'), 'w') as f:
        json.dump(man, f, indent=1)
    print('claimed:', claimed)

if __name__ == '__main__':
    main()
