"""Rules used by units/try_join_array.vx and units/try_join_vec.vx (merged into vx.rules.RULES)."""
import re as _re
from . import rustlex as _lex


def _iter_mut_to_index_len(body):
    """`for state in self.state.iter_mut() { .. state.m() .. }` over a Vec-like table ->
    `let n_ = self.state.len(); for k in 0..n_ { .. self.state[k].m() .. }`
    (Verus gives no post-state for iter_mut loops; the range end must be a let-bound variable)."""
    m = _re.search(r'for\s+state\s+in\s+self\.state\.iter_mut\(\)\s*\{', body)
    if not m:
        return body, 0
    ob = m.end() - 1
    cb = _lex.match_close(_lex.mask(body), ob)
    inner = _re.sub(r'\bstate\.', 'self.state[k].', body[ob:cb + 1])
    return body[:m.start()] + 'let n_ = self.state.len(); for k in 0..n_ ' + inner + body[cb + 1:], 1


RULES = {
    # P3: enumerate loop over the pinned child container, Vec flavour without the `let futures = ..` reborrow
    'P3_enum_vec_self': [
        (r'for\s*\(i,\s*mut fut\)\s*in\s*self\.futures\.iter\(\)\.enumerate\(\)', 'let nf_ = self.futures.len(); for i in 0..nf_'),
    ],
    'P3_state_iter_mut_len': [(_iter_mut_to_index_len)],
    # try_join tuple (compiler expansion): `assert!(!*this.consumed, "..")` expands to
    # `if !!self.consumed { { ::core::panicking::panic_fmt(format_args!("..")); } };`  =>  assert!(!self.consumed);
    'TT_panic_assert_not': [
        (r'if !!(self\.\w+)\s*\{\s*\{\s*::core::panicking::panic_fmt\(format_args!\("[^"]*"\)\);\s*\}\s*\};?', r'assert!(!\1);'),
    ],
    # constructor: `_phantom: PhantomData` (core::marker::PhantomData is not imported in generated files)
    'TT_phantom': [
        (r'_phantom:\s*PhantomData\b', '_phantom: core::marker::PhantomData'),
    ],
    # N6: PollArray::set_all_none through the extracted real function (units/model_pollarray.vx)
    'TT_state_set_all_none': [
        (r'self\.state\.set_all_none\(\);', 'pollarray_set_all_none(&mut self.state);'),
    ],
}
