"""Self-test of N5b/N5c (rename robustness): for every function a unit extracts from a plain source file and every
local it binds, a scratch copy of /repo/src with that one local renamed (inside that function body only) must generate
byte-identical Verus files.  Usage: python3 -m vx.alpha_fuzz [file-substring]   (scratch copy under /var/tmp, removed)"""
import os, sys, re, json, shutil, subprocess, tempfile

VERIF = os.path.dirname(os.path.dirname(os.path.abspath(__file__)))


def gen_all(repo, only_units=None):
    code = r'''
import sys, json
sys.path.insert(0, %r)
from vx import gen
units = gen.load_units()
out = {}
files = {}
orig = gen._read_repo
cur = [None]
def rr(rel):
    files.setdefault(cur[0], set()).add(rel)
    if rel == 'expanded': raise gen.ExtractError('expanded skipped')
    return orig(rel)
gen._read_repo = rr
for name, u in sorted(units.items()):
    if not u.is_unit: continue
    if %r is not None and name not in %r: continue
    for cfg in u.configs:
        cur[0] = name
        try:
            out[name + '/' + cfg] = gen.generate(units, name, cfg)[0]
        except Exception as e:
            out[name + '/' + cfg] = 'ERROR ' + str(e)
json.dump([out, {k: sorted(v) for k, v in files.items()}], sys.stdout)
''' % (VERIF, only_units, only_units)
    p = subprocess.run([sys.executable, '-c', code], env=dict(os.environ, VX_REPO=repo), capture_output=True, text=True)
    return json.loads(p.stdout)


def main():
    sys.path.insert(0, VERIF)
    from vx import alpha, rustlex, gen
    filt = sys.argv[1] if len(sys.argv) > 1 else ''
    base = json.load(open(alpha.BASE_FILE))
    units = gen.load_units()
    # which units read which file
    users = {}
    for name, u in units.items():
        if not u.is_unit:
            continue
        txt = '\n'.join(u.lines)
        deps = set([name])
        for f in re.findall(r'//@(?:fn|struct|fields)\s+(\S+)\s*::', txt):
            users.setdefault(f, set()).add(name)
    # libs pulled in via //@use may also extract: map conservatively (all units) for files only used by libs
    ref, files = gen_all('/repo')
    users = {}
    for un, fl in files.items():
        for f_ in fl:
            users.setdefault(f_, set()).add(un)
    tmp = tempfile.mkdtemp(prefix='alpha-fuzz-', dir='/var/tmp')
    bad = 0
    total = 0
    try:
        shutil.copytree('/repo/src', os.path.join(tmp, 'src'))
        shutil.copy('/repo/Cargo.toml', tmp)
        for key, names in sorted(base.items()):
            file, impl_re, fname = key.split('|')
            if file == 'expanded' or filt not in file:
                continue
            src = open(os.path.join('/repo', file)).read()
            within = None
            if impl_re:
                a, ob, e = rustlex.find_item(src, r'\s*'.join(impl_re.split()))
                within = (a, e)
            fn, nth = fname, None
            if '#' in fn:
                fn, k = fn.split('#'); nth = int(k)
            f = rustlex.find_fn(src, fn, within, nth)
            bstart = src.index(f['body'], f['start'])
            for w in sorted(set(names)):
                if w in ('this',):
                    pass
                new = w + '_rn'
                body2, n = alpha.rename(f['body'], w, new)
                if n == 0:
                    continue
                total += 1
                open(os.path.join(tmp, file), 'w').write(src[:bstart] + body2 + src[bstart + len(f['body']):])
                got, _ = gen_all(tmp, sorted(users.get(file, [])))
                diffs = [k for k in got if got.get(k) != ref[k]]
                if diffs:
                    bad += 1
                    msg = [got[k][:160] for k in diffs if got[k].startswith('ERROR')][:1]
                    print('DIFF %s :: %s local %s -> %s: %s %s' % (file, fname, w, new, diffs[:4], msg), flush=True)
                open(os.path.join(tmp, file), 'w').write(src)
    finally:
        shutil.rmtree(tmp, ignore_errors=True)
    print('alpha-fuzz: %d renames, %d changed the generated text' % (total, bad))


if __name__ == '__main__':
    main()
