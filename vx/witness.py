"""Witness search: replay a refuted obligation as a concrete failing scenario on the REAL crate
(/verif/witness, plain-Rust scenario runner with run-time monitors).  Never decides a property: it
only turns `no-failing-input-found` into a concrete failing input where one exists within the budget."""
import os
import re
import json
import subprocess

VERIF = os.path.dirname(os.path.dirname(os.path.abspath(__file__)))
TARGET = '/var/tmp/vx-witness-target'
BUDGET = os.environ.get('VX_WITNESS_BUDGET', '20000')

FAMILIES = ['try_join', 'race_ok', 'join', 'race', 'merge', 'zip', 'chain']
LIVENESS_VIA_C01 = ('C04', 'C05', 'C06', 'C07', 'C08', 'C09', 'C10', 'C11', 'C12', 'C17', 'C19')


def targets_for(unit):
    """unit name -> list of (family, container)"""
    if unit.startswith('future_group') or unit == 'group_history':
        return [('future_group', 'group')]
    if unit.startswith('stream_group'):
        return [('stream_group', 'group')]
    if unit.startswith('wait_until'):
        return [('wait_until', 'na')]
    if unit.startswith('co_') or unit.startswith('costream_'):
        return [('co_stream', 'na')]
    for fam in FAMILIES:
        if unit.startswith(fam + '_'):
            rest = unit[len(fam) + 1:]
            cont = 'tuple' if rest.startswith('tuple') else rest
            if cont in ('array', 'vec', 'tuple'):
                return [(fam, cont)]
    if unit == 'maybe_done':
        return [('race_ok', 'vec')]
    if unit == 'indexer':
        return [('merge', 'array'), ('merge', 'vec'), ('race', 'array'), ('race', 'vec')]
    if unit in ('readiness_array', 'readiness_array_nostd', 'waker_array', 'poll_state'):
        return [('join', 'array'), ('merge', 'array'), ('zip', 'array'), ('try_join', 'array'), ('join', 'tuple')]
    if unit in ('readiness_vec', 'readiness_vec_nostd', 'waker_vec'):
        return [('join', 'vec'), ('merge', 'vec'), ('zip', 'vec'), ('future_group', 'group'), ('stream_group', 'group')]
    return []


def build(cfg, costream):
    """(Re)build the witness binary against /repo's current tree (incremental).  The concurrent-stream
    family costs ~1.5 min of compile time, so the other families use a lite build (own target dir)."""
    d = os.path.join(VERIF, 'witness') if cfg == 'std' else os.path.join(VERIF, 'witness', 'nostd')
    target = TARGET if costream else TARGET + '-lite'
    env = dict(os.environ, CARGO_NET_OFFLINE='true', CARGO_TARGET_DIR=target)
    cmd = ['cargo', 'build', '--offline', '--release']
    if not costream:
        cmd += ['--no-default-features'] + (['--features', 'std'] if cfg == 'std' else [])
    p = subprocess.run(cmd, cwd=d, env=env, capture_output=True, text=True, timeout=1800)
    exe = os.path.join(target, 'release', 'witness' if cfg == 'std' else 'witness-nostd')
    if p.returncode != 0 or not os.path.exists(exe):
        return None, p.stderr[-1500:]
    return exe, ''


def search(prop, failure, fallback=None):
    if os.environ.get('VX_NO_WITNESS'):
        return dict(found=False, note='witness search disabled (VX_NO_WITNESS)')
    tg = targets_for(failure['unit']) or list(fallback or [])   # a leaf / dependency unit: every family of the property
    if not tg:
        return dict(found=False, note='no witness family for unit %s' % failure['unit'])
    cfg = 'std' if failure.get('cfg', 'std') == 'std' else 'nostd'
    exe, err = build(cfg, any(f == 'co_stream' for f, _ in tg))
    if exe is None:
        return dict(found=False, note='witness build failed (does the tree compile?): ' + err)
    tried = []
    # a functional property of a family (C04..C12, C17, C19) promises outputs; a lost wake-up in that family (the C01 monitor:
    # Pending returned with no wake-up outstanding although a child is ready / fired) withholds them, so it is searched too
    props = [prop] + (['C01', 'C20'] if prop in LIVENESS_VIA_C01 else [])   # C20 monitor: a child never started withholds outputs as well
    for (fam, cont), prop_w in [(t, p_) for p_ in props for t in tg]:
        cmd = [exe, '--family', fam, '--container', cont, '--prop', prop_w, '--budget', BUDGET, '--seed', os.environ.get('VERIF_SEED', '1') or '1']
        try:
            p = subprocess.run(cmd, capture_output=True, text=True, timeout=600)
        except subprocess.TimeoutExpired:
            tried.append(dict(cmd=' '.join(cmd), result='timeout'))
            continue
        line = (p.stdout.strip().split('\n') or [''])[-1]
        try:
            j = json.loads(line)
        except Exception:
            tried.append(dict(cmd=' '.join(cmd), result='unparsable: ' + line[:200]))
            continue
        if j.get('found'):
            return dict(found=True, replay_cmd='%s --replay \'%s\' --prop %s --trace' % (exe, json.dumps(j.get('scenario')), prop_w),
                        family=fam, container=cont, config=j.get('config'), scenario=j.get('scenario'), observed=j.get('observed'),
                        monitor=prop_w, note=('' if prop_w == prop else 'found by the %s monitor (lost wake-up): the family stops delivering, which withholds the outputs %s promises' % (prop_w, prop)))
        tried.append(dict(cmd=' '.join(cmd), result=j))
    return dict(found=False, tried=tried)
