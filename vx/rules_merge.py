"""Rewrite rules for the merge / race family (units merge_array, merge_vec; reusable by race units).

N7_indexer_loop   Rust's own `for` desugaring for the user iterator returned by Indexer::iter (DESIGN 2.2 N7):
                      for X in this.indexer.iter() { B }
                  ->  let mut it = self.indexer.iter();
                      loop { let X = match it.next() { Some(v) => v, None => { break; } }; B }
                  `continue` / `return` / `break` inside B keep their meaning (B contains no nested loop that
                  could capture them differently: the text of B is untouched).  Works before or after N3_this.
P1_stream_pin_mut `let stream = utils::get_pin_mut[_from_vec](self.streams.as_mut(), I).unwrap();` +
                  `stream.poll_next(&mut cx)`  ->  `self.streams.get_pin_mut_unwrap(I);` (bounds obligation of
                  the unwrap) + `self.streams.poll_next_child(I, &mut cx, &mut self.wakers)`.  The selection
                  expression I is carried over verbatim, so wrong-child mutations survive extraction.
TM_* / TR_*       tuple impls of merge / race from the compiler's macro expansion (see the section comment below):
                  TM_indexes_as_usize, TM_mod_len_u8, TM_stream_child_poll, TM_streams_project, TM_ctor_streams,
                  TM_utils_indexer, TM_fold_dispatch (positional dispatch folding; conditions in its docstring),
                  TR_local_indexes, TR_field_poll, TR_ctor_fields.
"""
import re as _re
from . import rustlex as _lex


def n7_indexer_loop(body):
    m = _re.search(r'for\s+(\w+)\s+in\s+(?:this|self)\.indexer\.iter\(\)\s*\{', body)
    if not m:
        return body, 0
    ob = m.end() - 1
    cb = _lex.match_close(_lex.mask(body), ob)
    inner = body[ob + 1:cb]
    var = m.group(1)
    new = ('let mut it = self.indexer.iter();\n        loop {\n'
           '            let %s = match it.next() { Some(v) => v, None => { break; } };' % var
           + inner + '}')
    return body[:m.start()] + new + body[cb + 1:], 1


def p1_stream_pin_mut(body):
    m = _re.search(r'let\s+stream\s*=\s*utils::get_pin_mut(?:_from_vec)?\(\s*self\.streams\.as_mut\(\)\s*,\s*([^;]*?)\s*\)\.unwrap\(\);', body)
    if not m:
        return body, 0
    idx = m.group(1)
    body = body[:m.start()] + 'self.streams.get_pin_mut_unwrap(%s);' % idx + body[m.end():]
    body, k = _re.subn(r'\bstream\.poll_next\(&mut cx\)', 'self.streams.poll_next_child(%s, &mut cx, &mut self.wakers)' % idx, body)
    return body, 1 + k


# ---------------------------------------------------------------------------------------------------
# Tuple impls (compiler-expanded src/stream/merge/tuple.rs, src/future/race/tuple.rs).
# Field letter X <-> tuple position pos(X) (LETTERS, as in vx/rules_tuple.py).  Every rule that fixes a
# positional order checks it against the DECLARATION it comes from (enum Indexes / LEN table of the
# expansion, destructuring patterns) and does not match otherwise (lost anchor => exit 2).
# ---------------------------------------------------------------------------------------------------
LETTERS = 'ABCDEFGHIJKL'


def _pos(letter):
    return LETTERS.index(letter)


def _ordered(letters):
    return list(letters) == list(LETTERS[:len(letters)])


def _mod_tables(modname):
    """(enum variant list, LEN table list) of `mod MODNAME { .. enum Indexes { A, B, } const LEN: usize = [Indexes::A, ..].len(); }`
    read from the compiler's expansion; None if not found."""
    from . import gen as _gen       # lazy: gen imports the rule modules
    src = _gen.expanded_source()
    try:
        a, ob, e = _lex.find_item(src, r'\bmod\s+%s\b' % _re.escape(modname))
    except Exception:
        return None
    text = src[a:e]
    m = _re.search(r'#\[repr\(usize\)\]\s*pub\(super\)\s+enum\s+Indexes\s*\{([^}]*)\}', text)
    l = _re.search(r'pub\(super\)\s+const\s+LEN\s*:\s*usize\s*=\s*\[([^\]]*)\]\s*\.len\(\);', text)
    if not m or not l:
        return None
    variants = [x.strip() for x in m.group(1).split(',') if x.strip()]
    if any('=' in v for v in variants):          # explicit discriminants: positions are no longer declaration order
        return None
    table = _re.findall(r'Indexes::(\w+)', l.group(1))
    if len(table) != len([x for x in l.group(1).split(',') if x.strip()]):
        return None
    return variants, table


def tm_indexes_as_usize(body):
    """`MOD::Indexes::X as usize` -> the discriminant of X = its position in the #[repr(usize)] enum declaration of
    mod MOD in the expansion (no explicit discriminants, else no match)."""
    n = 0
    bad = False

    def rep(m):
        nonlocal n, bad
        t = _mod_tables(m.group(1))
        if not t or m.group(2) not in t[0]:
            bad = True
            return m.group(0)
        n += 1
        return '%d' % t[0].index(m.group(2))
    out = _re.sub(r'\b(\w+)::Indexes::(\w+)\s+as\s+usize\b', rep, body)
    if bad:
        return body, 0
    return out, n


def tm_mod_len_u8(body):
    """`const LEN: u8 = MOD::LEN as u8;` -> `let LEN: u8 = K as u8;` with K = number of entries of the LEN table of mod MOD
    (`[Indexes::A, ..].len()`), each entry a distinct variant of the enum; K <= 255 is checked so that the cast is the identity."""
    m = _re.search(r'const\s+LEN\s*:\s*u8\s*=\s*(\w+)::LEN\s+as\s+u8\s*;', body)
    if not m:
        return body, 0
    t = _mod_tables(m.group(1))
    if not t or len(set(t[1])) != len(t[1]) or any(x not in t[0] for x in t[1]) or len(t[1]) > 255:
        return body, 0
    # K <= 255: the cast `K as u8` is the identity
    return body[:m.start()] + 'let LEN: u8 = %du8;' % len(t[1]) + body[m.end():], 1


def tm_stream_child_poll(body):
    # unsafe { Pin::new_unchecked(&mut streams.X) }.poll_next(&mut cx)  -> poll_next_child(pos(X), ..)
    n = 0

    def rep(m):
        nonlocal n
        n += 1
        return 'self.streams.poll_next_child(%d, &mut cx, &mut self.wakers)' % _pos(m.group(1))
    return _re.sub(r'unsafe\s*\{\s*Pin::new_unchecked\(&mut streams\.([A-L])\)\s*\}\s*\.poll_next\(&mut cx\)', rep, body), n


def tm_fold_dispatch(body):
    """Positional dispatch folding (P3-style port, tuple merge).  The macro unrolls, for every field X,
        let stream_index = MOD::Indexes::X as usize;
        if stream_index == index { match unsafe { Pin::new_unchecked(&mut streams.X) }.poll_next(&mut cx) { ARMS } };
    For 0 <= index < K exactly one guard holds, so the chain equals the block of the field whose discriminant is `index`,
    run with stream_index == index.  It is replaced by ONE block
        let stream_index = index;
        if stream_index == index { match self.streams.poll_next_child(stream_index, &mut cx, &mut self.wakers) { ARMS } };
    ONLY IF all of the following are checked on the expansion (otherwise no match => lost anchor, exit 2):
      * the blocks are consecutive and textually identical up to the field letter in `streams.X` (whitespace-normalised);
      * the block guarded by Indexes::X polls `streams.X`, and the discriminant of X (its position in the #[repr(usize)] enum
        declaration of mod MOD, no explicit discriminants) equals pos(X), the tuple position of field X;
      * the discriminants are exactly 0..K-1, each once, K = number of entries of the LEN table of mod MOD;
      * no block assigns `index` or `stream_index`.
    For index >= K the original polls nothing while the folded text requires index < K (K_POLL_INDEX): stricter, never weaker.
    Why folding: with the unrolled chain Z3 needs > 250 s at arity 2 for the full clause set (every extra block multiplies the
    paths into ~25 quantified post-conditions at 2 more return points); folded it is the array proof (about 7 s at any arity).
    Returns the number of blocks folded."""
    hdr = _re.compile(r'let\s+stream_index\s*=\s*(\w+)::Indexes::([A-L])\s+as\s+usize\s*;\s*if\s+stream_index\s*==\s*index\s*\{')
    masked = _lex.mask(body)
    blocks = []
    pos0 = None
    cur = 0
    while True:
        m = hdr.search(body, cur)
        if not m:
            break
        if blocks and body[cur:m.start()].strip() not in ('', ';'):
            return body, 0                      # something between two blocks
        if not blocks:
            pos0 = m.start()
        ob = m.end() - 1
        cb = _lex.match_close(masked, ob)
        blocks.append((m.group(1), m.group(2), body[ob + 1:cb]))
        cur = cb + 1
    if not blocks:
        return body, 0
    end = cur
    m2 = _re.match(r'\s*;', body[end:])
    if m2:
        end += m2.end()
    if hdr.search(body, end):
        return body, 0
    mods = set(b[0] for b in blocks)
    if len(mods) != 1:
        return body, 0
    t = _mod_tables(blocks[0][0])
    if not t:
        return body, 0
    variants, table = t
    k = len(table)
    if len(set(table)) != k or sorted(table) != sorted(variants) or len(blocks) != k:
        return body, 0
    norm = None
    seen = []
    for (_, x, inner) in blocks:
        if x not in variants or variants.index(x) != _pos(x):
            return body, 0                      # discriminant of X differs from the tuple position of field X
        polls = _re.findall(r'\bstreams\.([A-L])\b', inner)
        if polls != [x]:
            return body, 0                      # block X must poll exactly streams.X, once
        if _re.search(r'\b(?:index|stream_index)\s*(?:[-+*/|&^]?=)(?!=)', inner):
            return body, 0
        n_ = _re.sub(r'\s+', ' ', _re.sub(r'\bstreams\.%s\b' % x, 'streams.@', inner)).strip()
        if norm is None:
            norm = n_
        elif n_ != norm:
            return body, 0                      # blocks differ by more than the field letter
        seen.append(_pos(x))
    if sorted(seen) != list(range(k)):
        return body, 0
    x0, inner0 = blocks[0][1], blocks[0][2]
    inner0, c = _re.subn(r'unsafe\s*\{\s*Pin::new_unchecked\(&mut streams\.%s\)\s*\}\s*\.poll_next\(&mut cx\)' % x0,
                         'self.streams.poll_next_child(stream_index, &mut cx, &mut self.wakers)', inner0)
    if c != 1:
        return body, 0
    new = 'let stream_index = index;\n                        if stream_index == index {' + inner0 + '};'
    return body[:pos0] + new + body[end:], k


def tm_ctor_streams(body):
    # MOD::Streams { A: A.into_stream(), B: B.into_stream(), }  -> Kids::wrap(streams)   (field X from variable X, positional order)
    m = _re.search(r'\w+::Streams\s*\{((?:\s*[A-L]\s*:\s*[A-L]\.into_stream\(\)\s*,?)+)\s*\}', body)
    if not m:
        return body, 0
    prs = _re.findall(r'([A-L])\s*:\s*([A-L])\.into_stream\(\)', m.group(1))
    if not _ordered([p[0] for p in prs]) or any(p[0] != p[1] for p in prs):
        return body, 0
    return body[:m.start()] + 'Kids::wrap(streams)' + body[m.end():], 1


def tr_local_indexes(body):
    """race: `#[repr(usize)] enum Indexes { A, B, }` declared INSIDE poll; `Indexes::X as usize` -> position of X in that
    declaration; the declaration (an item, no executable meaning) is removed."""
    m = _re.search(r'#\[repr\(usize\)\]\s*enum\s+Indexes\s*\{([^}]*)\}', body)
    if not m:
        return body, 0
    variants = [x.strip() for x in m.group(1).split(',') if x.strip()]
    if any('=' in v for v in variants):
        return body, 0
    body = body[:m.start()] + body[m.end():]
    bad = False
    n = 1

    def rep(mm):
        nonlocal n, bad
        if mm.group(1) not in variants:
            bad = True
            return mm.group(0)
        n += 1
        return '%d' % variants.index(mm.group(1))
    out = _re.sub(r'\bIndexes::(\w+)\s+as\s+usize\b', rep, body)
    if bad:
        return body, 0
    return out, n


def tr_field_poll(body):
    # unsafe { Pin::new_unchecked(&mut self.X) }.poll(cx)  -> self.futures.poll_cx(pos(X), cx)
    n = 0

    def rep(m):
        nonlocal n
        n += 1
        return 'self.futures.poll_cx(%d, cx)' % _pos(m.group(1))
    return _re.sub(r'unsafe\s*\{\s*Pin::new_unchecked\(&mut self\.([A-L])\)\s*\}\s*\.poll\(cx\)', rep, body), n


def tr_ctor_fields(body):
    # `A: A.into_future(), B: B.into_future(),` inside the struct literal -> `futures: Kids::wrap(futures),`
    m = _re.search(r'((?:\s*[A-L]\s*:\s*[A-L]\.into_future\(\)\s*,?)+)(\s*\})', body)
    if not m:
        return body, 0
    prs = _re.findall(r'([A-L])\s*:\s*([A-L])\.into_future\(\)', m.group(1))
    if not _ordered([p[0] for p in prs]) or any(p[0] != p[1] for p in prs):
        return body, 0
    return body[:m.start()] + ' futures: Kids::wrap(futures),' + m.group(2) + body[m.end():], 1


RULES = {
    'N7_indexer_loop': [n7_indexer_loop],
    'P1_stream_pin_mut': [p1_stream_pin_mut],
    # tuple merge / race (expanded source)
    'TM_indexes_as_usize': [tm_indexes_as_usize],
    'TM_mod_len_u8': [tm_mod_len_u8],
    'TM_stream_child_poll': [tm_stream_child_poll],
    'TM_streams_project': [(r'let\s+mut\s+streams\s*=\s*self\.streams\.project\(\);', '')],
    'TM_ctor_streams': [tm_ctor_streams],
    'TM_fold_dispatch': [tm_fold_dispatch],
    'TM_utils_indexer': [(r'\butils::Indexer::new\(', 'Indexer::new(')],
    'TR_local_indexes': [tr_local_indexes],
    'TR_field_poll': [tr_field_poll],
    'TR_ctor_fields': [tr_ctor_fields],
}
