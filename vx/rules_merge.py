"""Rewrite rules for the merge / race family (units merge_array, merge_vec; reusable by race units).

N7_indexer_loop   Rust's own `for` desugaring for the user iterator returned by Indexer::iter (DESIGN 2.2 N7):
                      for X in this.indexer.iter() { B }
                  ->  let mut it = self.indexer.iter();
                      loop { let X = match it.next() { Some(v) => v, None => { break; } }; B }
                  `continue` / `return` / `break` inside B keep their meaning (B contains no nested loop that
                  could capture them differently: the text of B is untouched).  Works before or after N3_this.
P1_stream_pin_mut `let stream = utils::get_pin_mut[_from_vec](self.streams.as_mut(), I).unwrap();` +
                  `stream.poll_next(&mut cx)`  ->  `self.streams.get_pin_mut_unwrap(I);` (bounds obligation of
                  the unwrap) + `self.streams.poll_next_child(I, &mut cx, &mut self.wakers)`.  The selection
                  expression I is carried over verbatim, so wrong-child mutations survive extraction.
"""
import re as _re
from . import rustlex as _lex


def n7_indexer_loop(body):
    m = _re.search(r'for\s+(\w+)\s+in\s+(?:this|self)\.indexer\.iter\(\)\s*\{', body)
    if not m:
        return body, 0
    ob = m.end() - 1
    cb = _lex.match_close(_lex.mask(body), ob)
    inner = body[ob + 1:cb]
    var = m.group(1)
    new = ('let mut it = self.indexer.iter();\n        loop {\n'
           '            let %s = match it.next() { Some(v) => v, None => { break; } };' % var
           + inner + '}')
    return body[:m.start()] + new + body[cb + 1:], 1


def p1_stream_pin_mut(body):
    m = _re.search(r'let\s+stream\s*=\s*utils::get_pin_mut(?:_from_vec)?\(\s*self\.streams\.as_mut\(\)\s*,\s*([^;]*?)\s*\)\.unwrap\(\);', body)
    if not m:
        return body, 0
    idx = m.group(1)
    body = body[:m.start()] + 'self.streams.get_pin_mut_unwrap(%s);' % idx + body[m.end():]
    body, k = _re.subn(r'\bstream\.poll_next\(&mut cx\)', 'self.streams.poll_next_child(%s, &mut cx, &mut self.wakers)' % idx, body)
    return body, 1 + k


RULES = {
    'N7_indexer_loop': [n7_indexer_loop],
    'P1_stream_pin_mut': [p1_stream_pin_mut],
}
