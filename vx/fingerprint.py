"""Tripwire for code OUTSIDE the contracts' reach.

`vx/baseline_fns.json` (written by `python3 -m vx.fingerprint --write` from the pinned tree) records, for every
non-test function of /repo/src, a hash of its comment-stripped, whitespace-normalised text, and per file a hash of
everything that is not a function body (struct/enum/const/macro/use items).  At check time `uncovered_changes(covered)`
lists the functions / file residues that differ from the baseline and are NOT among the functions the property's units
extract (a change inside an extracted function is the contracts' business).  The check then runs its *bounded stand-in*
(witness scenario enumeration on the real crate) for the property -- it can only add a VIOLATION with a concrete failing
scenario; it never turns into "proved" and never raises an alarm by itself."""
import os
import re
import json
import hashlib
from . import rustlex

BASE_FILE = os.path.join(os.path.dirname(os.path.abspath(__file__)), 'baseline_fns.json')


def _norm(t):
    return re.sub(r'\s+', ' ', rustlex.strip_comments(t)).strip()


def _h(t):
    return hashlib.sha256(t.encode()).hexdigest()[:16]


def scan_file(text):
    """{'fns': {name#k: hash}, 'rest': hash}; the `#[cfg(test)] mod` tail is ignored."""
    m = re.search(r'#\[cfg\(test\)\]\s*mod\s+\w+', text)
    if m:
        text = text[:m.start()]
    text = rustlex.strip_comments(text)
    masked = rustlex.mask(text)
    fns = {}
    spans = []
    count = {}
    for m in re.finditer(r'\bfn\s+(\w+)', masked):
        if any(a <= m.start() < b for a, b in spans):
            continue   # nested fn / closure inside an already recorded body
        try:
            ob = rustlex.find_body_open(masked, m.end())
        except Exception:
            ob = None
        if ob is None or ob < 0:
            continue   # declaration without body (trait method)
        cb = rustlex.match_close(masked, ob)
        name = m.group(1)
        k = count.get(name, 0)
        count[name] = k + 1
        fns['%s#%d' % (name, k)] = _h(re.sub(r'\s+', ' ', text[m.start():cb + 1]))
        spans.append((ob, cb + 1))
    rest = []
    pos = 0
    for a, b in sorted(spans):
        rest.append(text[pos:a])
        pos = b
    rest.append(text[pos:])
    return dict(fns=fns, rest=_h(re.sub(r'\s+', ' ', ''.join(rest))))


def scan(repo):
    out = {}
    src = os.path.join(repo, 'src')
    for root, dirs, files in sorted(os.walk(src)):
        dirs.sort()
        for fn in sorted(files):
            if fn.endswith('.rs'):
                p = os.path.join(root, fn)
                rel = os.path.relpath(p, repo)
                try:
                    out[rel] = scan_file(open(p).read())
                except Exception as e:
                    out[rel] = dict(fns={}, rest='unparsable: %r' % (e,))
    return out


_TUPLE_FILES = {
    'join': ['src/future/join/tuple.rs'], 'try_join': ['src/future/try_join/tuple.rs'], 'race': ['src/future/race/tuple.rs'],
    'race_ok': ['src/future/race_ok/tuple/mod.rs'], 'merge': ['src/stream/merge/tuple.rs'], 'zip': ['src/stream/zip/tuple.rs'],
    'chain': ['src/stream/chain/tuple.rs'],
}


def uncovered_changes(repo, covered_fns, cone_units):
    """covered_fns: set of 'file::name' (name possibly with #k) extracted by the cone; cone_units: unit names.
    Returns a list of 'file::fn' / 'file::(items)' strings."""
    try:
        base = json.load(open(BASE_FILE))
    except Exception:
        return []
    cur = scan(repo)
    cov = {}
    for c in covered_fns:
        if '::' in c:
            f, n = c.split('::', 1)
            cov.setdefault(f, set()).add(n.split('#')[0])
    macro_cov = set()
    for u in cone_units:
        m = re.match(r'(try_join|race_ok|join|race|merge|zip|chain)_tuple\d+$', u)
        if m:
            macro_cov.update(_TUPLE_FILES[m.group(1)])
    out = []
    for f in sorted(set(base) | set(cur)):
        b, c = base.get(f), cur.get(f)
        if f in macro_cov:
            continue   # macro_rules bodies: read through the compiler's expansion by the tuple units
        if b is None or c is None:
            out.append('%s::(file %s)' % (f, 'added' if b is None else 'removed'))
            continue
        for k in sorted(set(b['fns']) | set(c['fns'])):
            if b['fns'].get(k) != c['fns'].get(k):
                name = k.split('#')[0]
                if name in cov.get(f, set()):
                    continue
                out.append('%s::%s' % (f, name))
        if b['rest'] != c['rest']:
            out.append('%s::(items outside function bodies)' % f)
    return out


if __name__ == '__main__':
    import sys
    repo = os.environ.get('VX_REPO', '/repo')
    if '--write' in sys.argv:
        json.dump(scan(repo), open(BASE_FILE, 'w'), indent=0, sort_keys=True)
        print('recorded', BASE_FILE)
    else:
        print(uncovered_changes(repo, set(), []))
