"""Unit generator: turns a units/*.vx template into one self-contained Verus
file per feature configuration by extracting the real functions from /repo.

Directive summary (all start with `//@`):
  unit NAME | props C01 C02 .. | configs std nostd | use LIB..      (header)
  if CFG / else / endif                                            (conditional text)
  struct FILE :: HEADER_REGEX      .. end                          (verbatim item, N1/N2)
  fn FILE :: IMPL_REGEX :: NAME [props=..]  .. end                 (extracted function)
     expect_sig REGEX
     rules NAME[=N] ..            named rewrite rules (rules.py), N = required match count
     rule NAME N /REGEX/ => /REPL/  ad-hoc rewrite rule
     sig        + lines           new Verus signature with requires/ensures
     loop K     + lines           annotation before the `{` of the K-th loop (1-based)
     before /REGEX/ [nth] [opt] + lines   ghost text before a match in the rewritten body
     after  /REGEX/ [nth] [opt] + lines
     body_start + lines ; body_end + lines
"""
import os
import re
from . import rustlex
from .rustlex import ExtractError
from . import rules as rulesmod
from . import alpha

ALPHA_RECORD = None

VERIF = os.path.dirname(os.path.dirname(os.path.abspath(__file__)))
REPO = os.environ.get('VX_REPO', '/repo')
UNITS_DIR = os.path.join(VERIF, 'units')


class Unit:
    def __init__(self, name, path):
        self.name = name
        self.path = path
        self.props = []
        self.configs = ['std', 'nostd']
        self.uses = []
        self.lines = []
        self.is_unit = False
        self.tier = 'quick'
        self.lets = {}


def load_units():
    units = {}
    for fn in sorted(os.listdir(UNITS_DIR)):
        if not fn.endswith('.vx'):
            continue
        path = os.path.join(UNITS_DIR, fn)
        name = fn[:-3]
        u = Unit(name, path)
        body = []
        for ln in open(path).read().split('\n'):
            s = ln.strip()
            if s.startswith('//@unit'):
                u.is_unit = True
                continue
            if s.startswith('//@props '):
                u.props = s.split()[1:]
                continue
            if s.startswith('//@configs '):
                u.configs = s.split()[1:]
                continue
            if s.startswith('//@tier '):
                u.tier = s.split()[1]
                continue
            if s.startswith('//@let '):
                k, v = s[len('//@let '):].split('=', 1)
                u.lets[k.strip()] = v.strip()
                continue
            if s.startswith('//@use '):
                u.uses += s.split()[1:]
            body.append(ln)
        u.lines = body
        units[name] = u
    return units


_EXPANDED = {}


def expanded_source():
    """The compiler's own macro expansion of the crate (`cargo +nightly rustc --lib -- -Zunpretty=expanded`),
    used for the macro_rules-generated tuple impls.  Cached by the hash of Cargo.toml + src/**/*.rs."""
    import hashlib
    import subprocess
    if REPO in _EXPANDED:
        return _EXPANDED[REPO]
    h = hashlib.sha256()
    for root, dirs, files in sorted(os.walk(os.path.join(REPO, 'src'))):
        dirs.sort()
        for fn in sorted(files):
            if fn.endswith('.rs'):
                fp = os.path.join(root, fn)
                h.update(fp.encode())
                h.update(open(fp, 'rb').read())
    ct = os.path.join(REPO, 'Cargo.toml')
    if not os.path.exists(ct):
        raise ExtractError('expanded source needs a full crate (Cargo.toml missing in %s)' % REPO)
    h.update(open(ct, 'rb').read())
    cdir = '/var/tmp/vx-expand'
    os.makedirs(cdir, exist_ok=True)
    cf = os.path.join(cdir, h.hexdigest()[:24] + '.rs')
    if not os.path.exists(cf):
        env = dict(os.environ, CARGO_TARGET_DIR='/var/tmp/vx-expand/target', CARGO_NET_OFFLINE='true')
        p = subprocess.run(['cargo', '+nightly', 'rustc', '--lib', '--offline', '--', '-Zunpretty=expanded'],
                           cwd=REPO, env=env, capture_output=True, text=True, timeout=1200)
        if p.returncode != 0 or len(p.stdout) < 1000:
            raise ExtractError('macro expansion failed (the tree does not compile?): ' + p.stderr[-800:])
        tmp = cf + '.tmp%d' % os.getpid()
        with open(tmp, 'w') as f:
            f.write(p.stdout)
        os.replace(tmp, cf)
        # keep the cache small
        olds = sorted((os.path.getmtime(os.path.join(cdir, x)), x) for x in os.listdir(cdir) if x.endswith('.rs'))
        for _, x in olds[:-6]:
            os.remove(os.path.join(cdir, x))
    _EXPANDED[REPO] = open(cf).read()
    return _EXPANDED[REPO]


def _dep_source(rel):
    """`dep:<crate>/<path>`: a file of the dependency's source as pinned by /repo's Cargo.lock (cargo registry, offline)"""
    import glob
    crate, path = rel[4:].split('/', 1)
    ov = os.environ.get('VX_DEP_' + crate.upper().replace('-', '_'))   # dev only: a scratch copy of the dependency (mutation tests)
    if ov:
        return open(os.path.join(ov, path)).read()
    lock = os.path.join(REPO, 'Cargo.lock')
    if not os.path.exists(lock):
        lock = '/repo/Cargo.lock'
    m = re.search(r'name = "%s"\s*\nversion = "([^"]+)"' % re.escape(crate), open(lock).read())
    if not m:
        raise ExtractError('dependency %s not in Cargo.lock' % crate)
    cands = sorted(glob.glob(os.path.expanduser('~/.cargo/registry/src/*/%s-%s/%s' % (crate, m.group(1), path))))
    if not cands:
        raise ExtractError('source of dependency %s %s not found in the cargo registry' % (crate, m.group(1)))
    return open(cands[0]).read()


def _read_repo(rel):
    if rel == 'expanded':
        return expanded_source()
    if rel.startswith('dep:'):
        return _dep_source(rel)
    p = os.path.join(REPO, rel)
    if not os.path.exists(p):
        raise ExtractError('source file missing: %s' % rel)
    return open(p).read()


def _lineno(text, pos):
    return text.count('\n', 0, pos) + 1


def normalise_item(text):
    """N1/N2 on an item: drop doc comments and attributes other than
    repr/derive(Clone, Copy); make everything pub."""
    t = rustlex.strip_comments(text)
    # drop attributes (possibly multi-line)
    out = []
    masked = rustlex.mask(t)
    i = 0
    res = []
    while i < len(t):
        if masked[i] == '#' and masked[i + 1:i + 2] == '[':
            j = rustlex.match_close(masked, i + 1)
            attr = t[i:j + 1]
            if attr.startswith('#[repr'):
                res.append(attr)
            elif attr.startswith('#[derive'):
                keep = [d for d in ('Clone', 'Copy') if re.search(r'\b%s\b' % d, attr)]
                if keep:
                    res.append('#[derive(%s)]' % ', '.join(keep))
            i = j + 1
        else:
            res.append(t[i])
            i += 1
    t = ''.join(res)
    t = re.sub(r'\bpub\s*\(\s*(?:crate|super)\s*\)\s*', 'pub ', t)
    return t


def make_pub_fields(item):
    """Make struct fields and the item itself pub (N1)."""
    lines = item.split('\n')
    out = []
    depth = 0
    for ln in lines:
        s = ln.strip()
        if depth == 0 and re.match(r'(struct|enum|fn|const)\b', s):
            ln = ln.replace(s, 'pub ' + s, 1)
        elif depth == 1 and re.match(r'[a-z_][A-Za-z0-9_]*\s*:', s) and item.lstrip().split()[1 if item.lstrip().startswith('pub') else 0] == 'struct':
            ln = ln.replace(s, 'pub ' + s, 1)
        depth += ln.count('{') - ln.count('}')
        out.append(ln)
    return '\n'.join(out)


class FnSpec:
    def __init__(self, file, impl_re, name, props):
        self.file, self.impl_re, self.name, self.props = file, impl_re, name, props
        self.expect_sig = None
        self.rules = []          # (name, count or None, regex or None, repl or None)
        self.sig = None
        self.loops = {}
        self.inserts = []        # (kind, regex, nth, opt, text)
        self.body_start = ''
        self.body_end = ''
        self.keep_sig = False
        self.broadcast = None
        self.nloops = None


def parse_fn_block(header, lines):
    parts = [p.strip() for p in header.split('::')]
    props = None
    m = re.search(r'\bprops=(\S+)', parts[-1])
    if m:
        props = m.group(1).split(',')
        parts[-1] = parts[-1][:m.start()].strip()
    if len(parts) == 3:
        fs = FnSpec(parts[0], parts[1], parts[2], props)
    elif len(parts) == 2:
        fs = FnSpec(parts[0], None, parts[1], props)
    else:
        raise ExtractError('bad //@fn header: ' + header)
    cur = None   # (kind, key)
    buf = []

    def flush():
        nonlocal cur, buf
        if cur is None:
            return
        text = '\n'.join(buf)
        k = cur[0]
        if k == 'sig':
            fs.sig = text
        elif k == 'loop':
            fs.loops[cur[1]] = text
        elif k in ('before', 'after', 'replace'):
            fs.inserts.append((k, cur[1], cur[2], cur[3], text))
        elif k == 'body_start':
            fs.body_start = text
        elif k == 'body_end':
            fs.body_end = text
        cur, buf = None, []

    for ln in lines:
        s = ln.strip()
        if s.startswith('//@'):
            d = s[3:].split(None, 1)
            kw = d[0]
            arg = d[1] if len(d) > 1 else ''
            if kw == 'expect_sig':
                flush()
                fs.expect_sig = arg
            elif kw == 'nloops':
                flush()
                fs.nloops = -1 if arg.strip() == '*' else int(arg)
            elif kw == 'broadcast':
                flush()
                fs.broadcast = arg.strip()
            elif kw == 'keep_sig':
                flush()
                fs.keep_sig = True
            elif kw == 'rules':
                flush()
                for r in arg.split():
                    if '=' in r:
                        n, c = r.split('=')
                        fs.rules.append((n, int(c), None, None))
                    else:
                        fs.rules.append((r, None, None, None))
            elif kw == 'rule':
                flush()
                m = re.match(r'(\S+)\s+(\S+)\s+/(.*)/\s*=>\s*/(.*)/\s*$', arg)
                if not m:
                    raise ExtractError('bad //@rule: ' + arg)
                cnt = None if m.group(2) == '*' else int(m.group(2))
                fs.rules.append((m.group(1), cnt, m.group(3), m.group(4)))
            elif kw == 'sig':
                flush()
                cur = ('sig',)
            elif kw == 'loop':
                flush()
                cur = ('loop', int(arg))
            elif kw in ('before', 'after', 'replace'):
                flush()
                m = re.match(r'/(.*)/\s*(\d+)?\s*(opt)?\s*$', arg)
                if not m:
                    raise ExtractError('bad //@%s: %s' % (kw, arg))
                cur = (kw, m.group(1), int(m.group(2) or 0), bool(m.group(3)))
            elif kw in ('body_start', 'body_end'):
                flush()
                cur = (kw,)
            else:
                raise ExtractError('unknown directive in fn block: ' + s)
        else:
            buf.append(ln)
    flush()
    return fs


def apply_rules(body, fs, log, where):
    for (name, cnt, rx, repl) in fs.rules:
        if rx is None:
            if name not in rulesmod.RULES:
                raise ExtractError('unknown rule %s' % name)
            todo = rulesmod.RULES[name]
        else:
            todo = [(rx, repl)]
        total = 0
        for ent in todo:
            if callable(ent):
                r, rp = ent, None
            else:
                r, rp = ent
            if callable(r):
                body, k = r(body)
            else:
                body, k = re.subn(r, rp.replace('\\n', '\n') if isinstance(rp, str) else rp, body, flags=re.S)
            total += k
        log.append(dict(where=where, rule=name, matches=total, required=cnt))
        if cnt is not None and total != cnt:
            raise ExtractError('%s: rule %s matched %d times, expected %d (lost anchor)' % (where, name, total, cnt))
    return body


def _param_names(sig):
    """names of the non-self parameters of a fn signature, by position (None if it cannot be parsed)"""
    m = re.search(r'\bfn\s+\w+\s*(?:<[^(]*>)?\s*\(', sig)
    if not m:
        return None
    ob = m.end() - 1
    try:
        masked = rustlex.mask(sig)
        if masked[ob] != '(':
            return None
        cb = rustlex.match_close(masked, ob)
    except Exception:
        return None
    inner = sig[ob + 1:cb]
    parts, depth, cur = [], 0, ''
    for ch in inner:
        if ch in '<([':
            depth += 1
        elif ch in '>)]':
            depth -= 1
        if ch == ',' and depth == 0:
            parts.append(cur)
            cur = ''
        else:
            cur += ch
    if cur.strip():
        parts.append(cur)
    names = []
    for p_ in parts:
        p_ = p_.strip()
        if re.match(r'(&\s*(mut\s+)?|mut\s+)?self\b', p_):
            continue
        mm = re.match(r'(?:mut\s+)?(\w+)\s*:', p_)
        if mm:
            names.append(mm.group(1))
        else:
            mm = re.match(r'Tracked\((\w+)\)|Ghost\((\w+)\)', p_)
            names.append((mm.group(1) or mm.group(2)) if mm else p_)
    return names


def gen_fn(fs, cfg, log, vac=False):
    src = _read_repo(fs.file)
    within = None
    if fs.impl_re:
        # whitespace in the header pattern matches any whitespace (the expansion is re-wrapped by rustc)
        a, ob, e = rustlex.find_item(src, r'\s*'.join(fs.impl_re.split()))
        within = (a, e)
    fname, nth = fs.name, None
    if '#' in fname:
        fname, k = fname.split('#')
        nth = int(k)
    f = rustlex.find_fn(src, fname, within, nth)
    where = '%s::%s' % (fs.file, fs.name)
    srcline = _lineno(src, f['start'])
    sig_src = re.sub(r'\s+', ' ', rustlex.strip_comments(f['sig']))
    if fs.expect_sig and not re.search(fs.expect_sig, sig_src) and fs.sig and not fs.keep_sig:
        # N5b: a renamed parameter is not a changed signature -- retry with the contract's parameter names, position by position
        real_p0 = _param_names(sig_src)
        spec_p0 = _param_names(re.sub(r'\s+', ' ', fs.sig.split('requires')[0].split('ensures')[0]))
        if real_p0 and spec_p0 and len(real_p0) <= len(spec_p0):
            sig_try = sig_src
            for (ro, so) in zip(real_p0, spec_p0):
                if ro != so and re.match(r'^\w+$', ro) and re.match(r'^\w+$', so):
                    sig_try = re.sub(r'(?<![\w.])%s(?=\s*:)' % re.escape(ro), so, sig_try)
            if re.search(fs.expect_sig, sig_try):
                sig_src_for_check = sig_try
            else:
                sig_src_for_check = sig_src
        else:
            sig_src_for_check = sig_src
    else:
        sig_src_for_check = sig_src
    if fs.expect_sig and not re.search(fs.expect_sig, sig_src_for_check):
        raise ExtractError('%s: signature changed: `%s` does not match /%s/' % (where, sig_src, fs.expect_sig))
    body = rustlex.strip_comments(f['body'])
    # N5b: parameter names.  The contract's signature names the parameters; if the real function names them
    # differently (a rename is behaviour-preserving) the body is renamed position by position.
    if fs.sig and not fs.keep_sig:
        real_p = _param_names(sig_src)
        spec_p = _param_names(re.sub(r'\s+', ' ', fs.sig.split('requires')[0].split('ensures')[0]))
        if real_p is not None and spec_p is not None and len(real_p) <= len(spec_p):
            for (ro, so) in zip(real_p, spec_p):
                if ro != so and ro not in spec_p and not ro.startswith('_') and re.match(r'^\w+$', ro) and re.match(r'^\w+$', so):
                    body, k = re.subn(r'(?<![\w.])%s\b' % re.escape(ro), so, body)
                    log.append(dict(where=where, rule='N5b_param_rename %s->%s' % (ro, so), matches=k, required=None))
    # N5c: local binding names aligned with the pinned baseline (vx/alpha.py): a renamed local is renamed back
    akey = '%s|%s|%s' % (fs.file, fs.impl_re or '', fs.name)
    if ALPHA_RECORD is not None:
        ALPHA_RECORD[akey] = alpha.bindings(body)
    else:
        body, renamed = alpha.align(body, alpha.baseline(akey))
        for (ro, so, k) in renamed:
            log.append(dict(where=where, rule='N5c_local_rename %s->%s' % (ro, so), matches=k, required=None))
    # N2: drop attributes inside bodies (#[allow(..)] on statements)
    body = re.sub(r'#\[allow\([^\]]*\)\]\s*', '', body)
    for (gname, grx, grepl) in getattr(rulesmod, 'GLOBAL_PRE_RULES', []):
        body, k = re.subn(grx, grepl, body, flags=re.S)
        if k:
            log.append(dict(where=where, rule=gname, matches=k, required=None))
    body = apply_rules(body, fs, log, where)
    # global normalisations (applied after the unit's own rules, to whatever they left): semantics-preserving
    # rewrites of std/PollArray/PollVec helper calls that Verus cannot read (logged when they match)
    for (gname, grx, grepl) in rulesmod.GLOBAL_RULES:
        if callable(grx):
            body, k = grx(body)
        else:
            body, k = re.subn(grx, grepl, body, flags=re.S)
        if k:
            log.append(dict(where=where, rule=gname, matches=k, required=None))
    # text inserts (before loops are located: inserts may not add loops)
    for (kind, rx, nth, opt, text) in fs.inserts:
        ms = list(re.finditer(rx, body, re.S))
        if len(ms) <= nth:
            if opt:
                log.append(dict(where=where, insert=rx, matches=0, optional=True))
                continue
            raise ExtractError('%s: anchor /%s/ #%d not found (lost anchor)' % (where, rx, nth))
        m = ms[nth]
        if kind == 'before':
            body = body[:m.start()] + text + '\n' + body[m.start():]
        elif kind == 'after':
            body = body[:m.end()] + '\n' + text + '\n' + body[m.end():]
        else:
            body = body[:m.start()] + text + body[m.end():]
    # loop annotations
    loops = rustlex.find_loops(body)
    want = sorted(fs.loops)
    # ghost text may itself not contain loops; count only
    if want and want[-1] > len(loops):
        raise ExtractError('%s: loop #%d not found (%d loops) (lost anchor)' % (where, want[-1], len(loops)))
    for k in range(len(loops), 0, -1):
        kw, ob = loops[k - 1]
        ann = fs.loops.get(k, '')
        ins = ('\n' + ann + '\n') if ann else ''
        after = ''
        if fs.broadcast:
            after = ' broadcast use %s;\n' % fs.broadcast
        if vac:
            after += ' proof { assert(false); } // @VAC %s loop%d\n' % (where, k)
        body = body[:ob] + ins + '{' + after + body[ob + 1:]
    expected = fs.nloops if fs.nloops is not None else len(fs.loops)
    if expected != -1 and len(loops) != expected:
        # a loop was added or removed: ordinal-anchored invariants would land on the wrong loop
        raise ExtractError('%s: %d loops in the rewritten body, the contract was written for %d (lost anchor)' % (where, len(loops), expected))
    # body start / end
    inner = body.strip()
    assert inner[0] == '{' and inner[-1] == '}'
    start = fs.body_start
    if fs.broadcast:
        start = 'broadcast use %s;\n' % fs.broadcast + start
    if vac:
        start = 'proof { assert(false); } // @VAC %s entry\n' % where + start
    inner = '{\n' + start + '\n' + inner[1:-1] + '\n' + fs.body_end + '\n}'
    if fs.keep_sig:
        sig = normalise_item(f['sig'])
        sig = 'pub ' + sig if not sig.startswith('pub') else sig
        if fs.sig:
            sig = sig + '\n' + fs.sig
    else:
        if fs.sig is None:
            raise ExtractError('%s: no //@sig given' % where)
        sig = fs.sig
    head = '// @FN %s src=%s:%d%s\n' % (where, fs.file, srcline, (' props=' + ','.join(fs.props)) if fs.props else '')
    return head + sig.rstrip() + '\n' + inner + '\n// @ENDFN\n'


def gen_struct(file, header_re, sub_lines, log):
    src = _read_repo(file)
    a, ob, e = rustlex.find_item(src, header_re)
    # include the attribute lines directly above the header (derive / repr)
    while True:
        ls = src.rfind('\n', 0, a - 1) + 1 if a > 0 else 0
        prev = src[ls:a].strip()
        if a > 0 and src[a - 1] != '\n':
            a = ls  # header regex matched mid-line (e.g. after `pub(crate) `): back up to line start
            continue
        pl = src.rfind('\n', 0, ls - 1) + 1 if ls > 0 else 0
        pline = src[pl:ls].strip()
        if ls > 0 and (pline.startswith('#[') or pline.startswith('///')):
            a = pl
        else:
            break
    item = normalise_item(src[a:e])
    item = make_pub_fields(item)
    for ln in sub_lines:
        s = ln.strip()
        if s.startswith('//@rule'):
            m = re.match(r'//@rule\s+(\S+)\s+(\S+)\s+/(.*)/\s*=>\s*/(.*)/\s*$', s)
            if not m:
                raise ExtractError('bad //@rule in struct: ' + s)
            item, k = re.subn(m.group(3), m.group(4).replace('\\n', '\n'), item, flags=re.S)
            cnt = None if m.group(2) == '*' else int(m.group(2))
            log.append(dict(where=file, rule=m.group(1), matches=k, required=cnt))
            if cnt is not None and k != cnt:
                raise ExtractError('%s: struct rule %s matched %d, expected %d' % (file, m.group(1), k, cnt))
    return '// @ITEM %s src=%s:%d\n' % (header_re, file, _lineno(src, a)) + item + '\n'


def check_fields(file, header_re, names):
    """The hand-written model struct must have exactly the fields of the real struct."""
    src = _read_repo(file)
    a, ob, e = rustlex.find_item(src, header_re)
    item = normalise_item(src[a:e])
    body = item[item.index('{') + 1:item.rindex('}')]
    got, depth = [], 0
    for part in re.split(r'\n', body):
        s = part.strip()
        m = re.match(r'(?:pub\s+)?([a-z_][A-Za-z0-9_]*)\s*:', s)
        if m and depth == 0:
            got.append(m.group(1))
        depth += part.count('<') - part.count('>') + part.count('(') - part.count(')')
    if sorted(got) != sorted(names):
        raise ExtractError('%s: struct fields changed: real=%s model=%s' % (file, got, names))


def expand(units, name, cfg, log, seen, vac):
    """Expand unit `name` body (with its uses first)."""
    if name in seen:
        return ''
    seen.add(name)
    if name not in units:
        raise ExtractError('unknown lib/unit: ' + name)
    u = units[name]
    out = []
    origin = '// @ORIGIN %s props=%s' % (name, ','.join(u.props))
    out.append(origin)
    lines = u.lines
    i = 0
    active = [True]
    while i < len(lines):
        ln = lines[i]
        s = ln.strip()
        if s.startswith('//@if '):
            cond = s.split()[1]
            neg = cond.startswith('!')
            val = True if cond.lstrip('!') == 'yes' else False if cond.lstrip('!') == 'no' else (cond.lstrip('!') == cfg)
            active.append(active[-1] and (val != neg))
            i += 1
            continue
        if s == '//@else':
            prev = active.pop()
            active.append(active[-1] and not prev)
            i += 1
            continue
        if s == '//@endif':
            active.pop()
            i += 1
            continue
        if s.startswith('//@use '):
            if active[-1]:
                for dep in s.split()[1:]:
                    out.append(expand(units, dep, cfg, log, seen, vac))
                out.append(origin)
            i += 1
            continue
        if s.startswith('//@expect '):
            # //@expect FILE :: REGEX -- the real source must (still) contain this declaration (whitespace-insensitive)
            if active[-1]:
                file, rx = [p.strip() for p in s[len('//@expect '):].split('::', 1)]
                if not re.search(r'\s*'.join(rx.split()), rustlex.strip_comments(_read_repo(file))):
                    raise ExtractError('%s: expected declaration /%s/ not found (lost anchor)' % (file, rx))
            i += 1
            continue
        if s.startswith('//@fields '):
            if active[-1]:
                file, rx, names = [p.strip() for p in s[len('//@fields '):].split('::')]
                check_fields(file, rx, names.split())
            i += 1
            continue
        if s.startswith('//@fn ') or s.startswith('//@struct '):
            j = i + 1
            block = []
            while j < len(lines) and lines[j].strip() != '//@end':
                block.append(lines[j])
                j += 1
            if j >= len(lines):
                raise ExtractError('%s: unterminated block at line %d' % (name, i + 1))
            if active[-1]:
                if s.startswith('//@fn '):
                    fs = parse_fn_block(s[len('//@fn '):], block)
                    out.append(gen_fn(fs, cfg, log, vac))
                else:
                    hdr = s[len('//@struct '):]
                    file, rx = [p.strip() for p in hdr.split('::', 1)]
                    out.append(gen_struct(file, rx, block, log))
            i = j + 1
            continue
        if active[-1]:
            out.append(ln)
        i += 1
    return '\n'.join(out)


PRELUDE = '''// GENERATED by vx from /repo working tree -- unit %s config %s%s
#![allow(unused)]
use vstd::prelude::*;
use core::task::Poll;
verus! {
'''


def generate(units, name, cfg, vac=False):
    log = []
    units = dict(units)
    lets = dict(units[name].lets)
    if lets:
        lets.setdefault('POLLPART', 'yes')   # tuple templates: `//@let POLLPART=no` = constructor + Drop only (high arities)
        # ${NAME} substitution applies to every lib pulled in by this unit
        import copy
        def sub(t):
            for k, v in lets.items():
                t = t.replace('${%s}' % k, v)
            return t
        nu = {}
        for k, u in units.items():
            c = copy.copy(u)
            c.lines = [sub(l) for l in u.lines]
            nu[k] = c
        units = nu
    body = expand(units, name, cfg, log, set(), vac)
    if '${' in body:
        m = re.search(r'\$\{\w+\}', body)
        raise ExtractError('unsubstituted template variable %s in unit %s' % (m.group(0) if m else '?', name))
    text = PRELUDE % (name, cfg, ' (vacuity twin)' if vac else '') + body + '\n} // verus!\nfn main() {}\n'
    return text, log
