"""Rewrite rules for the concurrent_stream adapter units (costream_*.vx).  Author: costa."""
import re as _re
from . import rustlex as _lex


def _ready_macro(body):
    """N5: `ready!(E)` -> `match E { Poll::Ready(v_) => v_, Poll::Pending => { return Poll::Pending; } }`
    (the definition of core::task::ready!)."""
    k = 0
    while True:
        m = _re.search(r'\bready!\(', body)
        if not m:
            return body, k
        ob = m.end() - 1
        cb = _lex.match_close(_lex.mask(body), ob)
        inner = body[ob + 1:cb]
        body = body[:m.start()] + 'match %s { Poll::Ready(v_) => v_, Poll::Pending => { return Poll::Pending; } }' % inner + body[cb + 1:]
        k += 1


def _while_let_next(body):
    """N7: `while let Some(item) = self.group.next().await { B }` ->
    `loop { let item = match self.group.next().await { Some(v_) => v_, None => { break; } }; B }`
    (Verus gives no exit fact for `while let`; README pitfalls)."""
    k = 0
    while True:
        m = _re.search(r'while\s+let\s+Some\((\w+)\)\s*=\s*(self\.group\.next\(\)\.await)\s*\{', body)
        if not m:
            return body, k
        body = body[:m.start()] + 'loop { let %s = match %s { Some(v_) => v_, None => { break; } };' % (m.group(1), m.group(2)) + body[m.end():]
        k += 1


RULES = {
    # N3: `this.field.as_mut()` on a #[pin] field is a Pin reborrow; with the pin erased it is the field itself
    'N3_pin_as_mut': [
        (r'\b(self\.\w+)\.as_mut\(\)', r'\1'),
    ],
    # N2: module paths -- everything lives in one flat generated file
    'N2_super_path': [
        (r'\b(?:super|crate::concurrent_stream)::(ConsumerState)\b', r'\1'),
    ],
    'N5_ready': [_ready_macro],
    'N7_while_let_group_next': [_while_let_next],
}
