"""Minimal Rust lexical helpers: comment stripping, brace matching, item lookup.

Everything here works on *text positions* of the real source so that what is
extracted is the text that rustc compiles (minus comments).
"""
import re


class ExtractError(Exception):
    """Lost anchor / unsupported construct: reported as exit 2 (undecided)."""


_MASK_CACHE = {}


def mask(text, keep_strings=False):
    """Memoised front end of _mask (the compiler expansion is 2.7 MB and is masked many times)."""
    if len(text) < 20000:
        return _mask(text, keep_strings)
    key = (len(text), hash(text), keep_strings)
    r = _MASK_CACHE.get(key)
    if r is None:
        r = _mask(text, keep_strings)
        if len(_MASK_CACHE) > 8:
            _MASK_CACHE.clear()
        _MASK_CACHE[key] = r
    return r


def _mask(text, keep_strings=False):
    """Return text of identical length in which comments (and, unless
    keep_strings, string/char literal contents) are replaced by spaces.
    Newlines are preserved."""
    out = list(text)
    i, n = 0, len(text)

    def blank(a, b):
        for k in range(a, b):
            if out[k] != '\n':
                out[k] = ' '

    while i < n:
        c = text[i]
        if c == '/' and i + 1 < n and text[i + 1] == '/':
            j = text.find('\n', i)
            if j < 0:
                j = n
            blank(i, j)
            i = j
        elif c == '/' and i + 1 < n and text[i + 1] == '*':
            depth, j = 1, i + 2
            while j < n and depth:
                if text.startswith('/*', j):
                    depth += 1
                    j += 2
                elif text.startswith('*/', j):
                    depth -= 1
                    j += 2
                else:
                    j += 1
            blank(i, j)
            i = j
        elif c == '"':
            j = i + 1
            while j < n and text[j] != '"':
                j += 2 if text[j] == '\\' else 1
            if not keep_strings:
                blank(i + 1, j)
            i = j + 1
        elif c == 'r' and re.match(r'r#*"', text[i:i + 8]) and (i == 0 or not (text[i - 1].isalnum() or text[i - 1] == '_')):
            m = re.match(r'r(#*)"', text[i:])
            close = '"' + m.group(1)
            j = text.find(close, i + len(m.group(0)))
            if j < 0:
                j = n
            if not keep_strings:
                blank(i + len(m.group(0)), j)
            i = j + len(close)
        elif c == "'":
            # char literal or lifetime
            m = re.match(r"'(\\.[^']*|[^'\\])'", text[i:])
            if m:
                if not keep_strings:
                    blank(i + 1, i + len(m.group(0)) - 1)
                i += len(m.group(0))
            else:
                i += 1
        else:
            i += 1
    return ''.join(out)


def strip_comments(text):
    """Remove comments (replace with nothing but keep line structure)."""
    m = mask(text, keep_strings=True)
    # collapse lines that became blank
    lines = [ln.rstrip() for ln in m.split('\n')]
    out = []
    for ln in lines:
        if ln == '' and out and out[-1] == '':
            continue
        out.append(ln)
    return '\n'.join(out)


OPEN = {'{': '}', '(': ')', '[': ']'}


def match_close(masked, pos):
    """masked[pos] is an opening bracket; return index of its match."""
    o = masked[pos]
    c = OPEN[o]
    depth = 0
    for k in range(pos, len(masked)):
        ch = masked[k]
        if ch == o:
            depth += 1
        elif ch == c:
            depth -= 1
            if depth == 0:
                return k
    raise ExtractError('unbalanced %s at %d' % (o, pos))


def find_body_open(masked, start):
    """From `start` (after a keyword / signature start) find the `{` that opens
    the block at paren/bracket depth 0."""
    depth = 0
    k = start
    while k < len(masked):
        ch = masked[k]
        if ch in '([':
            depth += 1
        elif ch in ')]':
            depth -= 1
        elif ch == '{' and depth == 0:
            return k
        elif ch == ';' and depth == 0:
            return -1
        k += 1
    return -1


def find_item(text, header_re, nth=0):
    """Find an item (impl/struct/enum/fn/mod) whose header matches header_re
    (searched on comment-masked text).  Returns (start, open_brace, end) with
    text[start:end] the whole item; open_brace == -1 for `;`-terminated."""
    masked = mask(text)
    ms = list(re.finditer(header_re, masked, re.S))
    if len(ms) <= nth:
        raise ExtractError('item not found: /%s/ (#%d)' % (header_re, nth))
    m = ms[nth]
    ob = find_body_open(masked, m.end())
    if ob < 0:
        semi = masked.find(';', m.end())
        return m.start(), -1, semi + 1
    return m.start(), ob, match_close(masked, ob) + 1


def find_fn(text, name, within=None, nth=None):
    """Locate `fn name` inside text (optionally restricted to (a,b) range).
    Returns dict(sig=..., body=..., start, body_open, end) where body includes
    the outer braces."""
    masked = mask(text)
    a, b = within if within else (0, len(text))
    ms = [m for m in re.finditer(r'\b(?:async\s+)?fn\s+%s\b' % re.escape(name), masked[a:b])]
    if not ms:
        raise ExtractError('fn %s not found' % name)
    if nth is None and len(ms) > 1:
        raise ExtractError('fn %s ambiguous (%d matches)' % (name, len(ms)))
    if nth is not None and nth >= len(ms):
        raise ExtractError('fn %s#%d not found' % (name, nth))
    s = a + ms[nth or 0].start()
    ob = find_body_open(masked, s)
    if ob < 0:
        raise ExtractError('fn %s has no body' % name)
    e = match_close(masked, ob) + 1
    return dict(sig=text[s:ob].strip(), body=text[ob:e], start=s, body_open=ob, end=e)


LOOP_KW = re.compile(r'\b(for|while|loop)\b')


def find_loops(code):
    """Return list of (kw_pos, brace_pos) of loops in textual order.  `for<`
    (HRTB) and `impl .. for ..` cannot occur inside function bodies we handle,
    but `for` followed by `<` is skipped anyway."""
    masked = mask(code)
    res = []
    for m in LOOP_KW.finditer(masked):
        if m.group(1) == 'for' and masked[m.end():].lstrip().startswith('<'):
            continue
        # `.for_each` etc are excluded by \b + preceding char check
        if m.start() > 0 and (masked[m.start() - 1] in '._' or masked[m.start() - 1].isalnum()):
            continue
        ob = find_body_open(masked, m.end())
        if ob < 0:
            continue
        res.append((m.start(), ob))
    return res
