"""N5c: alignment of local binding names with the pinned baseline (alpha-renaming).

The rewrite rules and the ghost annotations of a unit name the locals of the function as they are spelled in the
pinned source (`readiness`, `fut`, `index`, ...).  A rename of a local is behaviour-preserving, so it must neither
lose an anchor nor change a verdict.  `bindings(body)` lists the identifiers a function body binds (let / for /
closure parameters / match-arm, if-let and while-let patterns) in textual order.  `align(body, base)` compares that
list with the one recorded for the same function at the pinned commit (vx/baseline_bindings.json, written by
`python3 -m vx.alpha --write`); positions where only the spelling differs are renamed back to the baseline spelling
by a whole-identifier, capture-checked substitution (field accesses `.x` and path segments `x::` are untouched).
A renaming that would capture (the baseline name is already in use in the body, or two names map to one) is not
performed; the function is then extracted as it is (and may lose an anchor -> undecided, never a wrong verdict)."""
import re
import json
import os
import difflib
from . import rustlex

KEYWORDS = {'mut', 'ref', 'box', 'if', 'in', 'let', 'else', 'match', 'return', 'true', 'false', 'self', 'move', 'as',
            'unsafe', 'loop', 'while', 'for', 'break', 'continue', 'fn', 'pub', 'use', 'crate', 'super', 'dyn', 'impl',
            'where', 'const', 'static', 'struct', 'enum', 'type', 'async', 'await'}

_IDENT = re.compile(r'(?<![\w:.\'])([a-z_][A-Za-z0-9_]*)\b(?!\s*(?:::|\(|\{|!))')


def _pat_idents(pat):
    """identifiers bound by a pattern text (heuristic: lower-case identifiers that are not paths, calls, field names)"""
    out = []
    # a field name in a struct pattern `f: binding` is followed by a single colon
    pat = re.sub(r'\b[a-z_]\w*\s*:(?!:)\s*', '', pat)
    for m in _IDENT.finditer(pat):
        w = m.group(1)
        if w in KEYWORDS or w == '_':
            continue
        out.append(w)
    return out


def _top_level_cut(s, stops):
    """prefix of s up to the first top-level occurrence of one of the stop strings"""
    depth = 0
    i = 0
    while i < len(s):
        c = s[i]
        if c in '([{<':
            depth += 1
        elif c in ')]}>':
            if c == '>' and i > 0 and s[i - 1] in '-=':
                pass
            else:
                depth -= 1
        if depth == 0:
            for st in stops:
                if s.startswith(st, i):
                    return s[:i]
        i += 1
    return s


def bindings(body):
    """[(name, position)] of the identifiers bound in a function body, in textual order"""
    masked = rustlex.mask(body)
    found = []
    # let PAT [: T] [= ..];   (also `if let` / `while let`)
    for m in re.finditer(r'\blet\b', masked):
        rest = masked[m.end():m.end() + 400]
        # cut at the top-level `=` that is not `==`/`=>`, or `;`
        mm = re.search(r'(?<![=!<>])=(?![=>])|;', rest)
        pat = rest[:mm.start()] if mm else rest
        pat = _top_level_cut(pat, [':'])
        for w in _pat_idents(pat):
            found.append((w, m.end()))
    # for PAT in
    for m in re.finditer(r'\bfor\b(.{1,200}?)\bin\b', masked, re.S):
        for w in _pat_idents(m.group(1)):
            found.append((w, m.start(1)))
    # closures |a, b| / move |a|
    for m in re.finditer(r'(?:(?<=[(,=])|(?<=\bmove))\s*\|([^|]{0,200}?)\|', masked):
        for part in m.group(1).split(','):
            part = _top_level_cut(part, [':'])
            for w in _pat_idents(part):
                found.append((w, m.start(1)))
    # match arms: PAT [if guard] =>
    for m in re.finditer(r'=>', masked):
        # walk back to the start of the arm pattern: previous top-level `,` `{` or `}`
        i = m.start() - 1
        depth = 0
        while i >= 0:
            c = masked[i]
            if c in ')]':
                depth += 1
            elif c in '([':
                if depth == 0:
                    break
                depth -= 1
            elif depth == 0 and c in ',{}':
                break
            i -= 1
        pat = masked[i + 1:m.start()]
        pat = re.split(r'\bif\b', pat)[0]
        for w in _pat_idents(pat):
            found.append((w, i + 1))
    found.sort(key=lambda t: t[1])
    return [w for (w, _) in found]


def rename(body, old, new):
    return re.subn(r'(?<![\w\'])(?<!(?<!\.)\.)%s\b(?!\s*::)' % re.escape(old), new, body)


def _uses(body, name):
    # a struct-literal field label (`Self { name: value }`, after `{` or `,`) is not a use of a local called `name`
    body = re.sub(r'(?<=[{,])(\s*)%s(\s*:(?!:))' % re.escape(name), r'\1__label__\2', body)
    return re.search(r'(?<![\w\'])(?<!(?<!\.)\.)%s\b(?!\s*::)' % re.escape(name), body) is not None


def align(body, base):
    """returns (body', [(old, new, n)]).  `base` = the baseline binding list of this function."""
    cur = bindings(body)
    if cur == base or not base:
        return body, []
    mapping = {}
    sm = difflib.SequenceMatcher(a=base, b=cur, autojunk=False)
    for tag, i1, i2, j1, j2 in sm.get_opcodes():
        if tag == 'replace' and (i2 - i1) == (j2 - j1):
            for k in range(i2 - i1):
                b, c = base[i1 + k], cur[j1 + k]
                if b == c:
                    continue
                if mapping.get(c, b) != b:
                    return body, []          # one current name for two baseline names: not a plain renaming
                mapping[c] = b
    if not mapping:
        return body, []
    if len(set(mapping.values())) != len(mapping):
        return body, []                      # two current names would collapse into one
    done = []
    for c, b in mapping.items():
        if c in base:
            # the current spelling is itself a baseline name bound elsewhere (e.g. a swap): leave it alone
            return body, []
        if _uses(body, b) and b not in mapping:
            # the baseline spelling is in use for something else in this body: renaming could capture
            return body, []
    for c, b in mapping.items():
        body, n = rename(body, c, b)
        done.append((c, b, n))
    return body, done


_BASE = None
BASE_FILE = os.path.join(os.path.dirname(os.path.abspath(__file__)), 'baseline_bindings.json')


def baseline(key):
    global _BASE
    if _BASE is None:
        try:
            _BASE = json.load(open(BASE_FILE))
        except Exception:
            _BASE = {}
    return _BASE.get(key)


if __name__ == '__main__':
    import sys
    if '--write' in sys.argv:
        # record the binding list of every function any unit extracts, from the tree in VX_REPO (default /repo)
        os.environ['VX_ALPHA_RECORD'] = '1'
        from . import gen
        rec = {}
        gen.ALPHA_RECORD = rec
        units = gen.load_units()
        for name, u in sorted(units.items()):
            if not u.is_unit:
                continue
            for cfg in u.configs:
                try:
                    gen.generate(units, name, cfg)
                except Exception as e:
                    print('skip', name, cfg, str(e)[:100])
        json.dump(rec, open(BASE_FILE, 'w'), indent=0, sort_keys=True)
        print('recorded', len(rec), 'functions')
