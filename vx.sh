#!/bin/sh
exec python3 /verif/vx/main.py "$@"
