#!/bin/sh
# Run every (family, container, property) combination that has a monitor.
# usage: run_all.sh [witness binary] [budget] [seed] [extra flags...]
W=${1:-/var/tmp/vx-witness-target/release/witness}
B=${2:-2000}
S=${3:-1}
shift 3 2>/dev/null
rc=0
for fam in join try_join race race_ok merge zip chain future_group stream_group wait_until co_stream; do
  case $fam in
    future_group|stream_group) conts="group";;
    wait_until|co_stream) conts="na";;
    *) conts="array vec tuple";;
  esac
  for c in $conts; do
    for p in C01 C02 C03 C04 C05 C06 C07 C08 C09 C10 C11 C12 C13 C14 C15 C16 C17 C19 C20; do
      out=$($W --family $fam --container $c --prop $p --budget $B --seed $S "$@")
      e=$?
      case "$out" in *skipped*) continue;; esac
      echo "$fam/$c/$p exit=$e $out"
      [ $e -ne 0 ] && rc=1
    done
  done
done
exit $rc
