//! Runs one scenario against the real combinator and returns the recorded world.

use std::task::{Context, Poll};

use crate::build::{build, Out, Parent};
use crate::groups::{new_group, GroupDyn};
use crate::scenario::{Action, Scenario};
use crate::world::{fire_latest, fire_stale, guarded, take_world, w, Ev, GroupOp, PRes, Step, World};

enum Subject {
    Plain(Parent),
    Group(Box<dyn GroupDyn>),
}

struct Run<'a> {
    sc: &'a Scenario,
    subject: Option<Subject>,
    /// the combinator can still be polled (not finished, not dropped, not poisoned by a panic)
    alive: bool,
    is_group: bool,
    polled: bool,
    last_k: usize,
    last_was_item: bool,
    mutated: bool,
    outputs: Vec<Out>,
    next_child: usize,
    keys_seen: Vec<usize>,
}

pub struct Trace {
    pub world: World,
    /// the scenario could not be built (unsupported shape); not a violation
    pub build_error: Option<String>,
}

fn latest_parent_woken(k: usize) -> bool {
    w(|w| w.parent_woken.get(k).copied().unwrap_or(false))
}

impl<'a> Run<'a> {
    fn poll_due(&self) -> bool {
        self.alive && (!self.polled || self.last_was_item || self.mutated || latest_parent_woken(self.last_k))
    }

    fn poll(&mut self, spurious: bool) {
        if !self.alive {
            return;
        }
        let (k, waker) = w(|w| {
            let (k, wk) = w.new_parent_waker();
            w.ev(Ev::ParentPollStart { k, spurious });
            w.in_parent = true;
            (k, wk)
        });
        let mut cx = Context::from_waker(&waker);
        let subject = self.subject.as_mut().expect("alive implies subject");
        let r = guarded(|| match subject {
            Subject::Plain(Parent::Fut(f)) => match f.as_mut().poll(&mut cx) {
                Poll::Pending => (PRes::Pending, None),
                Poll::Ready(o) => (PRes::Ready(o.shape.clone()), Some(o)),
            },
            Subject::Plain(Parent::Stream(s)) => match s.as_mut().poll_next(&mut cx) {
                Poll::Pending => (PRes::Pending, None),
                Poll::Ready(None) => (PRes::None, None),
                Poll::Ready(Some(o)) => (PRes::Item(o.shape.clone()), Some(o)),
            },
            Subject::Group(g) => match g.poll(&mut cx) {
                Poll::Pending => (PRes::Pending, None),
                Poll::Ready(None) => (PRes::None, None),
                Poll::Ready(Some(o)) => (PRes::Item(o.shape.clone()), Some(o)),
            },
        });
        let res = match r {
            Ok((res, out)) => {
                if let Some(o) = out {
                    self.outputs.push(o);
                }
                res
            }
            Err(msg) => PRes::Panic(msg),
        };
        self.polled = true;
        self.last_k = k;
        self.mutated = false;
        self.last_was_item = matches!(res, PRes::Item(_));
        match &res {
            PRes::Ready(_) | PRes::Panic(_) => self.alive = false,
            // groups can be refilled after None
            PRes::None => self.alive = self.is_group,
            _ => {}
        }
        w(|w| {
            w.in_parent = false;
            w.ev(Ev::ParentPollEnd { k, res });
        });
        if self.is_group {
            self.view();
        }
    }

    fn drop_subject(&mut self) {
        if let Some(s) = self.subject.take() {
            w(|w| w.ev(Ev::DropStart));
            let r = guarded(move || drop(s));
            w(|w| w.ev(Ev::DropEnd { panic: r.err() }));
        }
        self.alive = false;
    }

    fn view(&mut self) {
        if let Some(Subject::Group(g)) = self.subject.as_mut() {
            let r = guarded(|| {
                let contains: Vec<(usize, bool)> =
                    self.keys_seen.iter().filter_map(|k| g.contains(*k).map(|b| (*k, b))).collect();
                GroupOp::View { len: g.len(), is_empty: g.is_empty(), cap: g.capacity(), contains }
            });
            if let Ok(v) = r {
                w(|w| w.ev(Ev::Group(v)));
            }
        }
    }

    fn group_op(&mut self, a: &Action) {
        let sc = self.sc;
        let Some(Subject::Group(g)) = self.subject.as_mut() else { return };
        let next = &mut self.next_child;
        let keys_seen = &mut self.keys_seen;
        let r = guarded(|| match a {
            Action::Insert => {
                if *next < sc.children.len() {
                    let (child, key) = g.insert(&format!("c{}", *next), &sc.children[*next]);
                    *next += 1;
                    if !keys_seen.contains(&key) {
                        keys_seen.push(key);
                    }
                    w(|w| w.ev(Ev::Group(GroupOp::Insert { child, key })));
                    true
                } else {
                    false
                }
            }
            Action::Extend(m) => {
                let hi = (*next + *m).min(sc.children.len());
                let scripts: Vec<(String, Vec<Step>)> =
                    (*next..hi).map(|i| (format!("c{i}"), sc.children[i].clone())).collect();
                if scripts.is_empty() {
                    return false;
                }
                match g.extend(&scripts) {
                    Some(children) => {
                        *next = hi;
                        w(|w| w.ev(Ev::Group(GroupOp::Extend { children })));
                        true
                    }
                    None => false,
                }
            }
            Action::Remove(j) => {
                // j-th key (in order of first appearance) ever returned by insert
                match keys_seen.get(*j).copied() {
                    Some(key) => match g.remove(key) {
                        Some(ret) => {
                            w(|w| w.ev(Ev::Group(GroupOp::Remove { key, ret })));
                            true
                        }
                        None => false,
                    },
                    None => false,
                }
            }
            Action::Reserve(n) => {
                g.reserve(*n);
                w(|w| w.ev(Ev::Group(GroupOp::Reserve { n: *n })));
                true
            }
            _ => false,
        });
        match r {
            Ok(true) => {
                self.mutated = true;
                self.view();
            }
            Ok(false) => {}
            Err(msg) => {
                // a panic in a group operation: record as a parent panic outside a poll
                w(|w| {
                    let (k, _) = w.new_parent_waker();
                    w.ev(Ev::ParentPollStart { k, spurious: true });
                    w.ev(Ev::ParentPollEnd { k, res: PRes::Panic(format!("in group operation {}: {msg}", a.to_str())) });
                });
                self.alive = false;
            }
        }
    }

    fn act(&mut self, a: &Action) {
        match a {
            Action::Poll => {
                if self.poll_due() {
                    self.poll(false)
                }
            }
            Action::Spurious => self.poll(true),
            Action::Fire(k) => {
                fire_latest(*k);
            }
            Action::Stale(k) => {
                fire_stale(*k);
            }
            Action::Drop => self.drop_subject(),
            Action::Insert | Action::Extend(_) | Action::Remove(_) | Action::Reserve(_) => {
                if self.alive {
                    self.group_op(a)
                }
            }
        }
        w(|w| w.ev(Ev::Quiescent));
    }

    /// wake-only executor until nothing more can happen
    fn finish(&mut self) {
        // executor steps (polls + wake-ups): 400 for everything small; large scenarios (hundreds of children or
        // source items, each needing a few polls / wake-ups) get a budget proportional to their size
        let steps: usize = self.sc.children.iter().map(|c| c.len() + 1).sum();
        let co = self.sc.co.as_ref().map(|c| c.len * (c.stack.len() + 2)).unwrap_or(0);
        let mut budget = (3 * (steps + co) + 100).max(400);
        while budget > 0 {
            budget -= 1;
            if self.poll_due() {
                self.poll(false);
                w(|w| w.ev(Ev::Quiescent));
                continue;
            }
            if !self.alive {
                break;
            }
            // outstanding "wake later" wakers: the latest poll stored a waker that nobody fired yet
            let fire_hi = self.sc.fire_hi;
            let cand = w(|w| {
                let mut v: Vec<usize> = Vec::new();
                for (i, c) in w.children.iter().enumerate() {
                    if c.drops > 0 || c.done || c.polls.is_empty() {
                        continue;
                    }
                    let j = c.polls.len() - 1;
                    let st = c.polls[j].step;
                    if matches!(st, Step::WakeLater | Step::WakeSib(_)) && c.fired_latest_at_poll != Some(j) {
                        v.push(i);
                    }
                }
                if fire_hi {
                    v.last().copied()
                } else {
                    v.first().copied()
                }
            });
            match cand {
                Some(c) => {
                    fire_latest(c);
                    w(|w| w.ev(Ev::Quiescent));
                }
                None => break,
            }
        }
    }
}

pub fn run(sc: &Scenario) -> Trace {
    drop(take_world());
    let is_group = sc.family.ends_with("_group");
    let built: Result<Subject, String> = match guarded(|| {
        if is_group {
            new_group(&sc.family, sc.keyed, sc.cap).map(Subject::Group)
        } else {
            build(sc).map(Subject::Plain)
        }
    }) {
        Ok(r) => r,
        Err(msg) => Err(format!("panic while constructing: {msg}")),
    };
    let subject = match built {
        Ok(s) => s,
        Err(e) => {
            return Trace { world: take_world(), build_error: Some(e) };
        }
    };
    w(|w| w.ev(Ev::Constructed));
    let mut run = Run {
        sc,
        subject: Some(subject),
        alive: true,
        is_group,
        polled: false,
        last_k: 0,
        last_was_item: false,
        mutated: false,
        outputs: Vec::new(),
        next_child: 0,
        keys_seen: Vec::new(),
    };
    if is_group {
        run.view();
    }
    w(|w| w.ev(Ev::Quiescent));
    for a in &sc.schedule {
        run.act(a);
    }
    if sc.finish {
        run.finish();
    }
    run.drop_subject();
    w(|w| w.ev(Ev::Quiescent));
    let outs = std::mem::take(&mut run.outputs);
    let _ = guarded(move || drop(outs));
    w(|w| {
        w.ev(Ev::OutputsReleased);
        w.ev(Ev::End);
    });
    drop(run);
    Trace { world: take_world(), build_error: None }
}
