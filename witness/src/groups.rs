//! FutureGroup / StreamGroup (plain and keyed) behind one object-safe interface.
//! Keys are exposed as the integer inside `Key(n)` (read through the key's `Debug` form).

use std::fmt::Debug;
use std::pin::Pin;
use std::task::{Context, Poll};

use futures_concurrency::future::future_group;
use futures_concurrency::future::FutureGroup;
use futures_concurrency::stream::stream_group;
use futures_concurrency::stream::StreamGroup;
use futures_core::Stream;

use crate::build::Out;
use crate::world::{SFut, SStream, Shape, Step, Val};

fn key_num<K: Debug>(k: &K) -> usize {
    let s = format!("{k:?}");
    s.chars().filter(|c| c.is_ascii_digit()).collect::<String>().parse().unwrap_or(usize::MAX)
}

pub trait GroupDyn {
    /// insert a new scripted member; returns (child index, key)
    fn insert(&mut self, label: &str, script: &[Step]) -> (usize, usize);
    /// FutureGroup only: `extend` with new scripted members; returns their child indices
    fn extend(&mut self, scripts: &[(String, Vec<Step>)]) -> Option<Vec<usize>>;
    /// remove by key number; None if no key with that number was ever returned
    fn remove(&mut self, key: usize) -> Option<bool>;
    fn contains(&mut self, key: usize) -> Option<bool>;
    fn len(&self) -> usize;
    fn is_empty(&self) -> bool;
    fn capacity(&self) -> usize;
    fn reserve(&mut self, n: usize);
    fn poll(&mut self, cx: &mut Context<'_>) -> Poll<Option<Out>>;
}

macro_rules! impl_group {
    ($name:ident, $group:ty, $key:ty, $child:ident, $keyed:expr, $extend:expr) => {
        pub struct $name {
            g: $group,
            /// (key number, key) of every key `insert` returned (the number is cached: reading it goes
            /// through the key's `Debug` form)
            keys: Vec<(usize, $key)>,
        }
        impl GroupDyn for $name {
            fn insert(&mut self, label: &str, script: &[Step]) -> (usize, usize) {
                let c = $child::new(label, script);
                let idx = c.idx();
                let k = self.g.insert(c);
                let n = key_num(&k);
                self.keys.push((n, k));
                (idx, n)
            }
            fn extend(&mut self, scripts: &[(String, Vec<Step>)]) -> Option<Vec<usize>> {
                #[allow(clippy::redundant_closure_call)]
                ($extend)(&mut self.g, scripts)
            }
            fn remove(&mut self, key: usize) -> Option<bool> {
                let k = self.keys.iter().find(|k| k.0 == key)?.1;
                Some(self.g.remove(k))
            }
            fn contains(&mut self, key: usize) -> Option<bool> {
                let k = self.keys.iter().find(|k| k.0 == key)?.1;
                Some(self.g.contains_key(k))
            }
            fn len(&self) -> usize {
                self.g.len()
            }
            fn is_empty(&self) -> bool {
                self.g.is_empty()
            }
            fn capacity(&self) -> usize {
                self.g.capacity()
            }
            fn reserve(&mut self, n: usize) {
                self.g.reserve(n)
            }
            fn poll(&mut self, cx: &mut Context<'_>) -> Poll<Option<Out>> {
                match Pin::new(&mut self.g).poll_next(cx) {
                    Poll::Pending => Poll::Pending,
                    Poll::Ready(None) => Poll::Ready(None),
                    Poll::Ready(Some(item)) => {
                        #[allow(clippy::redundant_closure_call)]
                        let shape = ($keyed)(&item);
                        Poll::Ready(Some(Out { shape, keep: Box::new(item) }))
                    }
                }
            }
        }
    };
}

fn ext_f(g: &mut FutureGroup<SFut>, scripts: &[(String, Vec<Step>)]) -> Option<Vec<usize>> {
    let futs: Vec<SFut> = scripts.iter().map(|(l, s)| SFut::new(l, s)).collect();
    let idx = futs.iter().map(|f| f.idx()).collect();
    // an odd batch goes through an iterator WITHOUT an upper size bound (`size_hint() == (0, None)`), an even one through the
    // Vec itself (exact size hint): `Extend::extend` reserves from the hint and must cope with both
    if futs.len() % 2 == 1 {
        let mut it = futs.into_iter();
        g.extend(core::iter::from_fn(move || it.next()));
    } else {
        g.extend(futs);
    }
    Some(idx)
}

impl_group!(FG, FutureGroup<SFut>, future_group::Key, SFut, |v: &Val| Shape::V(v.snap()), ext_f);
impl_group!(
    FGK,
    future_group::Keyed<SFut>,
    future_group::Key,
    SFut,
    |kv: &(future_group::Key, Val)| Shape::Idx(key_num(&kv.0), Box::new(Shape::V(kv.1.snap()))),
    |g: &mut future_group::Keyed<SFut>, s: &[(String, Vec<Step>)]| {
        let g: &mut FutureGroup<SFut> = g;
        ext_f(g, s)
    }
);
impl_group!(
    SG,
    StreamGroup<SStream>,
    stream_group::Key,
    SStream,
    |v: &Val| Shape::V(v.snap()),
    |_g: &mut StreamGroup<SStream>, _s: &[(String, Vec<Step>)]| None
);
impl_group!(
    SGK,
    stream_group::Keyed<SStream>,
    stream_group::Key,
    SStream,
    |kv: &(stream_group::Key, Val)| Shape::Idx(key_num(&kv.0), Box::new(Shape::V(kv.1.snap()))),
    |_g: &mut stream_group::Keyed<SStream>, _s: &[(String, Vec<Step>)]| None
);

pub fn new_group(family: &str, keyed: bool, cap: usize) -> Result<Box<dyn GroupDyn>, String> {
    Ok(match (family, keyed) {
        ("future_group", false) => Box::new(FG { g: FutureGroup::with_capacity(cap), keys: vec![] }),
        ("future_group", true) => Box::new(FGK { g: FutureGroup::with_capacity(cap).keyed(), keys: vec![] }),
        ("stream_group", false) => Box::new(SG { g: StreamGroup::with_capacity(cap), keys: vec![] }),
        ("stream_group", true) => Box::new(SGK { g: StreamGroup::with_capacity(cap).keyed(), keys: vec![] }),
        _ => return Err(format!("not a group family: {family}")),
    })
}
