//! witness: scenario replay / witness search against the real futures-concurrency combinators.
//! See README.md for the CLI, the scenario JSON and the exact monitor rules.
#![cfg_attr(not(feature = "costream"), allow(dead_code))]

mod build;
#[cfg(feature = "costream")]
mod costream;
mod driver;
mod groups;
mod json;
mod monitors;
mod scenario;
mod world;

use std::process::exit;
use std::sync::atomic::{AtomicU64, Ordering};
use std::sync::Mutex;

use json::J;
use scenario::{containers_of, generate, props_of, GenOpts, Scenario, FAMILIES};

struct Args {
    family: Option<String>,
    container: Option<String>,
    prop: Option<String>,
    budget: u64,
    seed: u64,
    replay: Option<String>,
    trace: bool,
    panics: bool,
    avoid_known: bool,
    start: u64,
}

/// scenario counter + description of the scenario in flight, for the hang watchdog
static TICK: AtomicU64 = AtomicU64::new(0);
static IN_FLIGHT: Mutex<Option<(String, String)>> = Mutex::new(None);
const HANG_SECS: u64 = 10;

/// A combinator that dead-locks (e.g. wakes a child while holding its own lock) or spins forever would
/// hang the search. The watchdog reports the scenario in flight as a violation instead.
fn start_watchdog() {
    std::thread::spawn(|| {
        let mut last = u64::MAX;
        let mut same = 0u64;
        loop {
            std::thread::sleep(std::time::Duration::from_millis(500));
            let t = TICK.load(Ordering::SeqCst);
            if t == last {
                same += 1;
            } else {
                same = 0;
                last = t;
            }
            if same >= HANG_SECS * 2 {
                if let Ok(g) = IN_FLIGHT.lock() {
                    if let Some((sc, prop)) = g.as_ref() {
                        let scj = json::parse(sc).unwrap_or(J::Null);
                        let j = J::obj(vec![
                            ("found", J::Bool(true)),
                            ("family", scj.get("family").cloned().unwrap_or(J::Null)),
                            ("container", scj.get("container").cloned().unwrap_or(J::Null)),
                            ("prop", J::s(prop)),
                            ("config", J::s(if cfg!(feature = "std") { "std" } else { "alloc" })),
                            ("scenario", scj.clone()),
                            (
                                "observed",
                                J::s(&format!(
                                    "hang: the scenario did not finish within {HANG_SECS} s (dead-lock or unbounded loop inside the combinator or a waker)"
                                )),
                            ),
                        ]);
                        println!("{}", j.to_string());
                        exit(1);
                    }
                }
            }
        }
    });
}

fn usage() -> ! {
    eprintln!(
        "usage: witness --family <join|try_join|race|race_ok|merge|zip|chain|future_group|stream_group|wait_until|co_stream>\n\
         \x20              --container <array|vec|tuple|group|na> --prop <C01..C20|all>\n\
         \x20              [--budget <n scenarios>] [--seed <u64>] [--start <index>] [--avoid-known] [--panics] [--trace]\n\
         \x20      witness --replay '<scenario json>' --prop <Cxx|all> [--family ..] [--container ..] [--trace]\n\
         \x20      witness --list"
    );
    exit(2)
}

fn fail(msg: &str) -> ! {
    println!("{}", J::obj(vec![("error", J::s(msg))]).to_string());
    exit(2)
}

fn parse_args() -> Args {
    let mut a = Args {
        family: None,
        container: None,
        prop: None,
        budget: 2000,
        seed: 1,
        replay: None,
        trace: false,
        panics: false,
        avoid_known: false,
        start: 0,
    };
    let mut it = std::env::args().skip(1);
    while let Some(x) = it.next() {
        let mut val = |name: &str| it.next().unwrap_or_else(|| fail(&format!("missing value for {name}")));
        match x.as_str() {
            "--family" => a.family = Some(val("--family")),
            "--container" => a.container = Some(val("--container")),
            "--prop" => a.prop = Some(val("--prop")),
            "--budget" => a.budget = val("--budget").parse().unwrap_or_else(|_| fail("bad --budget")),
            "--seed" => a.seed = val("--seed").parse().unwrap_or_else(|_| fail("bad --seed")),
            "--start" => a.start = val("--start").parse().unwrap_or_else(|_| fail("bad --start")),
            "--replay" => a.replay = Some(val("--replay")),
            "--trace" => a.trace = true,
            "--panics" => a.panics = true,
            "--avoid-known" => a.avoid_known = true,
            "--list" => {
                for f in FAMILIES {
                    println!("{f}: containers {:?}, props {:?}", containers_of(f), props_of(f));
                }
                println!("C18 (compile-time): {:?}", build::c18_static_assertions());
                println!("configuration: {}", if cfg!(feature = "std") { "std" } else { "alloc-only" });
                exit(0)
            }
            "-h" | "--help" => usage(),
            other => fail(&format!("unknown argument {other:?}")),
        }
    }
    a
}

/// run one scenario; returns Some((prop, observed)) on a violation
fn run_one(sc: &Scenario, props: &[String], trace: bool) -> Result<Option<(String, String)>, String> {
    if let Ok(mut g) = IN_FLIGHT.lock() {
        *g = Some((sc.to_json().to_string(), props.first().cloned().unwrap_or_default()));
    }
    TICK.fetch_add(1, Ordering::SeqCst);
    let t = driver::run(sc);
    if let Ok(mut g) = IN_FLIGHT.lock() {
        *g = None;
    }
    if trace {
        for (i, e) in t.world.log.iter().enumerate() {
            eprintln!("{i:4} {e:?}");
        }
        for (i, c) in t.world.children.iter().enumerate() {
            eprintln!(
                "child {i} {:?} {}: script {:?} polls {} drops {}",
                c.kind,
                c.label,
                c.script.iter().map(|s| s.to_str()).collect::<Vec<_>>(),
                c.polls.len(),
                c.drops
            );
        }
    }
    if let Some(e) = &t.build_error {
        if e.starts_with("panic while constructing") {
            let p = props.iter().find(|p| !matches!(p.as_str(), "C01" | "C02" | "C03" | "C16" | "C20"));
            return Ok(p.map(|p| (p.clone(), e.clone())));
        }
        return Err(e.clone());
    }
    for p in props {
        if let Some(obs) = monitors::check(p, sc, &t.world) {
            return Ok(Some((p.clone(), obs)));
        }
    }
    Ok(None)
}

fn report_found(sc: &Scenario, prop: &str, observed: &str) -> ! {
    let j = J::obj(vec![
        ("found", J::Bool(true)),
        ("family", J::s(&sc.family)),
        ("container", J::s(&sc.container)),
        ("prop", J::s(prop)),
        ("config", J::s(if cfg!(feature = "std") { "std" } else { "alloc" })),
        ("scenario", sc.to_json()),
        ("observed", J::s(observed)),
    ]);
    println!("{}", j.to_string());
    exit(1)
}

fn main() {
    let a = parse_args();
    world::install_panic_hook();
    start_watchdog();
    let prop = a.prop.clone().unwrap_or_else(|| fail("--prop is required"));

    // ------------------------------------------------------------------ replay
    if let Some(src) = &a.replay {
        let j = json::parse(src).unwrap_or_else(|e| fail(&format!("scenario json: {e}")));
        // accept either a bare scenario or a full report line
        let j = j.get("scenario").cloned().unwrap_or(j);
        let sc = Scenario::from_json(&j, a.family.as_deref(), a.container.as_deref())
            .unwrap_or_else(|e| fail(&format!("scenario: {e}")));
        if !FAMILIES.contains(&sc.family.as_str()) {
            fail(&format!("unknown family {:?}", sc.family));
        }
        let props = props_for(&sc.family, &prop);
        match run_one(&sc, &props, a.trace) {
            Ok(Some((p, obs))) => report_found(&sc, &p, &obs),
            Ok(None) => {
                println!("{}", J::obj(vec![("found", J::Bool(false)), ("explored", J::n(1))]).to_string());
                exit(0)
            }
            Err(e) => fail(&e),
        }
    }

    // ------------------------------------------------------------------ search
    let family = a.family.clone().unwrap_or_else(|| fail("--family is required"));
    if !FAMILIES.contains(&family.as_str()) {
        fail(&format!("unknown family {family:?}"));
    }
    let container = a.container.clone().unwrap_or_else(|| containers_of(&family)[0].to_string());
    if !containers_of(&family).contains(&container.as_str()) {
        fail(&format!("family {family} has containers {:?}, not {container:?}", containers_of(&family)));
    }
    if prop == "C18" {
        let j = J::obj(vec![
            ("found", J::Bool(false)),
            ("explored", J::n(0)),
            ("skipped", J::s("C18 is a compile-time property; Send/Sync instantiations are asserted when this binary is built")),
        ]);
        println!("{}", j.to_string());
        exit(0)
    }
    let props = props_for(&family, &prop);
    if props.is_empty() || (prop == "C16" && !cfg!(feature = "std")) {
        let j = J::obj(vec![
            ("found", J::Bool(false)),
            ("explored", J::n(0)),
            ("skipped", J::s(&format!("property {prop} has no monitor for family {family} in this configuration"))),
        ]);
        println!("{}", j.to_string());
        exit(0)
    }
    let opts = GenOpts { prop: prop.clone(), panics: a.panics || prop == "C02", avoid_known: a.avoid_known };
    let mut explored = 0u64;
    for i in a.start..a.start + a.budget {
        let sc = generate(&family, &container, a.seed, i, &opts);
        match run_one(&sc, &props, false) {
            Ok(Some((p, obs))) => report_found(&sc, &p, &obs),
            Ok(None) => explored += 1,
            Err(e) => fail(&format!("scenario #{i}: {e}; scenario = {}", sc.to_json().to_string())),
        }
    }
    println!("{}", J::obj(vec![("found", J::Bool(false)), ("explored", J::n(explored as usize))]).to_string());
    exit(0)
}

fn props_for(family: &str, prop: &str) -> Vec<String> {
    let known: Vec<String> = (1..=20).map(|i| format!("C{i:02}")).collect();
    if prop == "all" {
        return props_of(family).iter().map(|s| s.to_string()).collect();
    }
    if !known.contains(&prop.to_string()) {
        fail(&format!("unknown property {prop:?}"));
    }
    props_of(family).iter().filter(|p| **p == prop).map(|s| s.to_string()).collect()
}
