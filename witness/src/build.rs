//! Construct the REAL combinator for a scenario and erase its type behind `Parent`.

use std::any::Any;
use std::future::Future;
use std::pin::Pin;
use std::task::{Context, Poll};

use futures_concurrency::prelude::*;
use futures_core::Stream;

use crate::scenario::Scenario;
use crate::world::{SFut, SFutR, SStream, Shape, Val};

/// An output of the combinator: its shape (value ids) plus the real value, kept alive until the
/// driver releases it.
pub struct Out {
    pub shape: Shape,
    /// never read: it only keeps the real output alive until the driver drops it
    #[allow(dead_code)]
    pub keep: Box<dyn Any>,
}

pub trait Shaped {
    fn shape(&self) -> Shape;
}

impl Shaped for Val {
    fn shape(&self) -> Shape {
        Shape::V(self.snap())
    }
}
impl Shaped for () {
    fn shape(&self) -> Shape {
        Shape::L(vec![])
    }
}
impl<T: Shaped> Shaped for Vec<T> {
    fn shape(&self) -> Shape {
        Shape::L(self.iter().map(|x| x.shape()).collect())
    }
}
impl<T: Shaped, const N: usize> Shaped for [T; N] {
    fn shape(&self) -> Shape {
        Shape::L(self.iter().map(|x| x.shape()).collect())
    }
}
impl<A: Shaped> Shaped for (A,) {
    fn shape(&self) -> Shape {
        Shape::L(vec![self.0.shape()])
    }
}
impl<A: Shaped, B: Shaped> Shaped for (A, B) {
    fn shape(&self) -> Shape {
        Shape::L(vec![self.0.shape(), self.1.shape()])
    }
}
impl<A: Shaped, B: Shaped, C: Shaped> Shaped for (A, B, C) {
    fn shape(&self) -> Shape {
        Shape::L(vec![self.0.shape(), self.1.shape(), self.2.shape()])
    }
}
impl<T: Shaped, E: Shaped> Shaped for Result<T, E> {
    fn shape(&self) -> Shape {
        match self {
            Ok(t) => Shape::Ok(Box::new(t.shape())),
            Err(e) => Shape::Err(Box::new(e.shape())),
        }
    }
}
impl Shaped for core::convert::Infallible {
    fn shape(&self) -> Shape {
        Shape::Unit
    }
}

pub type DynFut = Pin<Box<dyn Future<Output = Out>>>;
pub type DynStream = Pin<Box<dyn Stream<Item = Out>>>;

pub enum Parent {
    Fut(DynFut),
    Stream(DynStream),
}

struct WrapFut<F: Future> {
    inner: Pin<Box<F>>,
    shape: Box<dyn Fn(&F::Output) -> Shape>,
}

impl<F: Future> Future for WrapFut<F>
where
    F::Output: 'static,
{
    type Output = Out;
    fn poll(mut self: Pin<&mut Self>, cx: &mut Context<'_>) -> Poll<Out> {
        match self.inner.as_mut().poll(cx) {
            Poll::Pending => Poll::Pending,
            Poll::Ready(v) => {
                let shape = (self.shape)(&v);
                Poll::Ready(Out { shape, keep: Box::new(v) })
            }
        }
    }
}

struct WrapStream<S: Stream> {
    inner: Pin<Box<S>>,
    shape: Box<dyn Fn(&S::Item) -> Shape>,
}

impl<S: Stream> Stream for WrapStream<S>
where
    S::Item: 'static,
{
    type Item = Out;
    fn poll_next(mut self: Pin<&mut Self>, cx: &mut Context<'_>) -> Poll<Option<Out>> {
        match self.inner.as_mut().poll_next(cx) {
            Poll::Pending => Poll::Pending,
            Poll::Ready(None) => Poll::Ready(None),
            Poll::Ready(Some(v)) => {
                let shape = (self.shape)(&v);
                Poll::Ready(Some(Out { shape, keep: Box::new(v) }))
            }
        }
    }
}

impl Parent {
    pub fn fut<F>(f: F) -> Parent
    where
        F: Future + 'static,
        F::Output: Shaped + 'static,
    {
        Parent::Fut(Box::pin(WrapFut { inner: Box::pin(f), shape: Box::new(|o: &F::Output| o.shape()) }))
    }
    pub fn fut_with<F>(f: F, shape: impl Fn(&F::Output) -> Shape + 'static) -> Parent
    where
        F: Future + 'static,
        F::Output: 'static,
    {
        Parent::Fut(Box::pin(WrapFut { inner: Box::pin(f), shape: Box::new(shape) }))
    }
    pub fn stream<S>(s: S) -> Parent
    where
        S: Stream + 'static,
        S::Item: Shaped + 'static,
    {
        Parent::Stream(Box::pin(WrapStream { inner: Box::pin(s), shape: Box::new(|o: &S::Item| o.shape()) }))
    }
}

/// pins the element type of an empty array to the constructor's return type
fn elem_ty<T, F: Fn(usize) -> T>(_mk: &F, a: [T; 0]) -> [T; 0] {
    a
}

/// expand `$e` with `$a` bound to an array of `$n` children built by `$mk(i)`
macro_rules! with_array {
    ($n:expr, $mk:ident, |$a:ident| $e:expr) => {
        match $n {
            0 => {
                let $a = elem_ty(&$mk, []);
                Ok($e)
            }
            1 => {
                let $a = [$mk(0)];
                Ok($e)
            }
            2 => {
                let $a = [$mk(0), $mk(1)];
                Ok($e)
            }
            3 => {
                let $a = [$mk(0), $mk(1), $mk(2)];
                Ok($e)
            }
            // the two "large" lengths (beyond the 32 / 64 element thresholds); `from_fn` calls `$mk` in
            // index order, so child i is array element i
            33 => {
                let $a: [_; 33] = core::array::from_fn(|i| $mk(i));
                Ok($e)
            }
            65 => {
                let $a: [_; 65] = core::array::from_fn(|i| $mk(i));
                Ok($e)
            }
            n => Err(format!("unsupported array length {n} (0..=3, 33, 65)")),
        }
    };
}

/// same for tuples; `$zero` is the expression for the empty tuple (or an Err)
macro_rules! with_tuple {
    ($n:expr, $mk:expr, $zero:expr, |$a:ident| $e:expr) => {
        match $n {
            0 => $zero,
            1 => {
                let $a = ($mk(0),);
                Ok($e)
            }
            2 => {
                let $a = ($mk(0), $mk(1));
                Ok($e)
            }
            3 => {
                let $a = ($mk(0), $mk(1), $mk(2));
                Ok($e)
            }
            n => Err(format!("unsupported tuple arity {n} (0..=3)")),
        }
    };
}

/// shape of race_ok outputs: `Result<Val, AggregateError<Val, ..>>` for any of the three
/// AggregateError types (they all deref to an array / Vec of errors)
fn race_ok_shape<A>(o: &Result<Val, A>) -> Shape
where
    A: std::ops::Deref,
    A::Target: AsRef<[Val]>,
{
    match o {
        Ok(v) => Shape::Ok(Box::new(v.shape())),
        Err(e) => {
            let errs: &[Val] = (**e).as_ref();
            Shape::Err(Box::new(Shape::L(errs.iter().map(|x| x.shape()).collect())))
        }
    }
}

macro_rules! race_ok_parent {
    ($f:expr) => {
        Parent::fut_with($f, race_ok_shape)
    };
}

pub fn build(sc: &Scenario) -> Result<Parent, String> {
    let n = sc.children.len();
    let ch = &sc.children;
    let f = |i: usize| SFut::new(&format!("c{i}"), &ch[i]);
    let fr = |i: usize| SFutR::new(&format!("c{i}"), &ch[i]);
    let s = |i: usize| SStream::new(&format!("c{i}"), &ch[i]);
    let unsupported = || Err(format!("unsupported container {:?} for family {:?}", sc.container, sc.family));
    match (sc.family.as_str(), sc.container.as_str()) {
        // ------------------------------------------------------------------ join
        ("join", "array") => with_array!(n, f, |a| Parent::fut(a.join())),
        ("join", "vec") => Ok(Parent::fut((0..n).map(f).collect::<Vec<_>>().join())),
        ("join", "tuple") => with_tuple!(n, f, Ok(Parent::fut(().join())), |a| Parent::fut(a.join())),
        // ------------------------------------------------------------------ try_join
        ("try_join", "array") => with_array!(n, fr, |a| Parent::fut(a.try_join())),
        ("try_join", "vec") => Ok(Parent::fut((0..n).map(fr).collect::<Vec<_>>().try_join())),
        ("try_join", "tuple") => {
            with_tuple!(n, fr, Ok(Parent::fut(().try_join())), |a| Parent::fut(a.try_join()))
        }
        // ------------------------------------------------------------------ race
        ("race", "array") => {
            if n == 0 {
                return Err("race over zero futures is outside C06".into());
            }
            with_array!(n, f, |a| Parent::fut(a.race()))
        }
        ("race", "vec") => {
            if n == 0 {
                return Err("race over zero futures is outside C06".into());
            }
            Ok(Parent::fut((0..n).map(f).collect::<Vec<_>>().race()))
        }
        ("race", "tuple") => with_tuple!(n, f, Err("race over the empty tuple does not exist".to_string()), |a| {
            Parent::fut(a.race())
        }),
        // ------------------------------------------------------------------ race_ok
        ("race_ok", "array") => with_array!(n, fr, |a| race_ok_parent!(a.race_ok())),
        ("race_ok", "vec") => Ok(race_ok_parent!((0..n).map(fr).collect::<Vec<_>>().race_ok())),
        ("race_ok", "tuple") => {
            with_tuple!(n, fr, Err("race_ok over the empty tuple does not exist".to_string()), |a| {
                race_ok_parent!(a.race_ok())
            })
        }
        // ------------------------------------------------------------------ merge
        ("merge", "array") => with_array!(n, s, |a| Parent::stream(a.merge())),
        ("merge", "vec") => Ok(Parent::stream((0..n).map(s).collect::<Vec<_>>().merge())),
        ("merge", "tuple") => with_tuple!(n, s, Ok(Parent::stream(().merge())), |a| Parent::stream(a.merge())),
        // ------------------------------------------------------------------ zip
        ("zip", "array") => {
            if n == 0 {
                return Err("zip over zero streams is outside C09".into());
            }
            with_array!(n, s, |a| Parent::stream(a.zip()))
        }
        ("zip", "vec") => {
            if n == 0 {
                return Err("zip over zero streams is outside C09".into());
            }
            Ok(Parent::stream((0..n).map(s).collect::<Vec<_>>().zip()))
        }
        ("zip", "tuple") => with_tuple!(n, s, Err("zip over the empty tuple does not exist".to_string()), |a| {
            Parent::stream(a.zip())
        }),
        // ------------------------------------------------------------------ chain
        ("chain", "array") => with_array!(n, s, |a| Parent::stream(a.chain())),
        ("chain", "vec") => Ok(Parent::stream((0..n).map(s).collect::<Vec<_>>().chain())),
        ("chain", "tuple") => {
            with_tuple!(n, s, Err("chain over the empty tuple does not exist".to_string()), |a| {
                Parent::stream(a.chain())
            })
        }
        // ------------------------------------------------------------------ wait_until
        ("wait_until", _) => {
            if n != 2 {
                return Err("wait_until needs children [deadline, inner]".into());
            }
            let deadline = SFut::new("deadline", &ch[0]);
            if sc.stream {
                let inner = SStream::new("inner", &ch[1]);
                Ok(Parent::stream(inner.wait_until(deadline)))
            } else {
                let inner = SFut::new("inner", &ch[1]);
                Ok(Parent::fut(inner.wait_until(deadline)))
            }
        }
        #[cfg(feature = "costream")]
        ("co_stream", _) => crate::costream::build(sc),
        #[cfg(not(feature = "costream"))]
        ("co_stream", _) => Err("built without the `costream` feature".into()),
        _ => unsupported(),
    }
}

/// C18 is a compile-time property; these instantiations are checked whenever this crate compiles.
#[allow(dead_code)]
pub fn c18_static_assertions() -> Vec<&'static str> {
    fn send<T: Send>() {}
    fn sync<T: Sync>() {}
    use futures_concurrency::{array, vec};
    send::<array::Join<SFut, 2>>();
    sync::<array::Join<SFut, 2>>();
    send::<array::TryJoin<SFutR, Val, Val, 2>>();
    send::<array::Race<SFut, 2>>();
    sync::<array::Race<SFut, 2>>();
    send::<array::RaceOk<SFutR, Val, Val, 2>>();
    send::<array::Merge<SStream, 2>>();
    sync::<array::Merge<SStream, 2>>();
    send::<array::Zip<SStream, 2>>();
    send::<array::Chain<SStream, 2>>();
    send::<vec::Join<SFut>>();
    sync::<vec::Join<SFut>>();
    send::<vec::TryJoin<SFutR, Val, Val>>();
    send::<vec::Race<SFut>>();
    send::<vec::RaceOk<SFutR, Val, Val>>();
    send::<vec::Merge<SStream>>();
    sync::<vec::Merge<SStream>>();
    send::<vec::Zip<SStream>>();
    send::<vec::Chain<SStream>>();
    send::<futures_concurrency::future::FutureGroup<SFut>>();
    sync::<futures_concurrency::future::FutureGroup<SFut>>();
    send::<futures_concurrency::stream::StreamGroup<SStream>>();
    sync::<futures_concurrency::stream::StreamGroup<SStream>>();
    send::<futures_concurrency::future::future_group::Keyed<SFut>>();
    send::<futures_concurrency::stream::stream_group::Keyed<SStream>>();
    fn send_val<T: Send>(_: &T) {}
    fn tuples() {
        let j = (SFut::new("", &[]), SFut::new("", &[])).join();
        send_val(&j);
        let r = (SFut::new("", &[]), SFut::new("", &[])).race();
        send_val(&r);
        let m = (SStream::new("", &[]), SStream::new("", &[])).merge();
        send_val(&m);
        let z = (SStream::new("", &[]), SStream::new("", &[])).zip();
        send_val(&z);
        let c = (SStream::new("", &[]), SStream::new("", &[])).chain();
        send_val(&c);
        let t = (SFutR::new("", &[]), SFutR::new("", &[])).try_join();
        send_val(&t);
        let o = (SFutR::new("", &[]), SFutR::new("", &[])).race_ok();
        send_val(&o);
    }
    let _ = tuples; // type-checked, never executed
    vec![
        "array::{Join,TryJoin,Race,RaceOk,Merge,Zip,Chain}: Send (Join/Race/Merge also Sync)",
        "vec::{Join,TryJoin,Race,RaceOk,Merge,Zip,Chain}: Send (Join/Merge also Sync)",
        "FutureGroup/StreamGroup: Send + Sync, Keyed views: Send",
        "tuple arity 2 of join/try_join/race/race_ok/merge/zip/chain: Send",
    ]
}
