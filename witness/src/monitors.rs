//! Run-time monitors: one function per property, evaluated over the recorded event log.
//! Each returns `Some(observed)` for a violation, `None` otherwise.

use crate::scenario::{Adapter, Scenario};
use crate::world::{CRes, Ev, GroupOp, Kind, PRes, Shape, World, BAD};

#[derive(Clone, Debug)]
pub struct CP {
    pub c: usize,
    pub res: CRes,
    pub t: usize,
}

#[derive(Clone, Debug)]
pub struct Span {
    pub k: usize,
    pub start: usize,
    pub end: usize,
    pub res: PRes,
    pub polls: Vec<CP>,
}

pub fn spans(w: &World) -> Vec<Span> {
    let mut out = Vec::new();
    let mut cur: Option<Span> = None;
    for (t, e) in w.log.iter().enumerate() {
        match e {
            Ev::ParentPollStart { k, .. } => {
                cur = Some(Span { k: *k, start: t, end: t, res: PRes::Pending, polls: vec![] })
            }
            Ev::ChildPoll { c, res, .. } => {
                if let Some(s) = cur.as_mut() {
                    s.polls.push(CP { c: *c, res: *res, t });
                }
            }
            Ev::ParentPollEnd { res, .. } => {
                if let Some(mut s) = cur.take() {
                    s.end = t;
                    s.res = res.clone();
                    out.push(s);
                }
            }
            _ => {}
        }
    }
    out
}

fn is_std() -> bool {
    cfg!(feature = "std")
}

/// unexpected (not injected) panic of the combinator itself
fn own_panic(w: &World, s: &Span) -> Option<String> {
    match &s.res {
        PRes::Panic(m) if !w.injected_panic => Some(format!("poll #{} of the combinator panicked: {m}", s.k)),
        _ => None,
    }
}

fn polls_after(s: &Span, t: usize) -> Option<&CP> {
    s.polls.iter().find(|p| p.t > t)
}

fn done_by(w: &World, c: usize, t: usize) -> bool {
    w.children[c].polls.iter().any(|p| p.t <= t && p.res.is_final())
}

/// first child that has not been polled at all by time `t` although its very first poll would return
/// one of `first` (so the combinator cannot know that it is pending)
fn unpolled_but_ready(sc: &Scenario, w: &World, t: usize, first: &[crate::world::Step]) -> Option<usize> {
    (0..sc.children.len().min(w.children.len())).find(|&c| {
        sc.children[c].first().map(|s| first.contains(s)).unwrap_or(false) && !w.children[c].polls.iter().any(|p| p.t <= t)
    })
}

fn expect(s: &Span, want: &PRes, why: &str) -> Option<String> {
    if &s.res != want {
        Some(format!("poll #{}: expected {} ({why}) but the combinator returned {}", s.k, want.show(), s.res.show()))
    } else {
        None
    }
}

fn n_children(sc: &Scenario) -> usize {
    sc.children.len()
}

pub fn check(prop: &str, sc: &Scenario, w: &World) -> Option<String> {
    match prop {
        "C01" => c01(sc, w),
        "C02" => c02(sc, w),
        "C03" => c03(sc, w),
        "C04" => c04(sc, w),
        "C05" => c05(sc, w),
        "C06" => c06(sc, w),
        "C07" => c07(sc, w),
        "C08" => c08(sc, w),
        "C09" => c09(sc, w),
        "C10" => c10(sc, w),
        "C11" | "C12" => c11_12(sc, w),
        "C13" => c13(sc, w),
        "C14" => c14(sc, w),
        "C15" => c15(sc, w),
        "C16" => c16(sc, w),
        "C17" => c17(sc, w),
        "C19" => c19(sc, w),
        "C20" => c20(sc, w),
        _ => None,
    }
}

// ---------------------------------------------------------------------------------------
// C01: lost wake-ups, panicking wakers, (re-)arming progress rule
// ---------------------------------------------------------------------------------------

fn c01(sc: &Scenario, w: &World) -> Option<String> {
    let n = w.children.len();
    let mut last: Vec<Option<(usize, CRes)>> = vec![None; n];
    let mut fired: Vec<bool> = vec![false; n];
    let mut dropped: Vec<bool> = vec![false; n];
    let mut items: Vec<usize> = vec![0; n];
    let mut latest_k: Option<usize> = None;
    let mut woken = false;
    let mut parent_last: Option<PRes> = None;
    let mut alive = true;
    let mut rows = 0usize;
    for e in &w.log {
        match e {
            Ev::WakePanic { c, msg } => {
                return Some(format!("invoking a waker that was handed to child {c} panicked: {msg}"));
            }
            Ev::ParentPollStart { k, .. } => {
                latest_k = Some(*k);
                woken = false;
            }
            Ev::ParentWake { k } => {
                if Some(*k) == latest_k {
                    woken = true;
                }
            }
            Ev::ChildPoll { c, wid, res, .. } => {
                last[*c] = Some((*wid, *res));
                fired[*c] = false;
                if matches!(res, CRes::Item(_)) {
                    items[*c] += 1;
                }
            }
            Ev::Wake { wid, .. } => {
                for x in 0..n {
                    if let Some((lw, CRes::Pending)) = last[x] {
                        if lw == *wid && !dropped[x] {
                            fired[x] = true;
                        }
                    }
                }
            }
            Ev::ParentPollEnd { res, .. } => {
                match res {
                    PRes::Ready(_) | PRes::Panic(_) => alive = false,
                    PRes::None => alive = sc.family.ends_with("_group"),
                    PRes::Item(_) => rows += 1,
                    PRes::Pending => {}
                }
                parent_last = Some(res.clone());
            }
            Ev::ChildDrop { c } => dropped[*c] = true,
            Ev::DropStart => alive = false,
            Ev::Quiescent => {
                if !alive || parent_last != Some(PRes::Pending) {
                    continue;
                }
                if !woken {
                    if let Some(x) = (0..n).find(|&x| fired[x] && !dropped[x]) {
                        return Some(format!(
                            "lost wake-up: child {x} ({}) returned Pending, then invoked the waker of its most recent poll, \
                             but parent waker #{} (most recent poll) was never invoked and the child was not re-polled; \
                             the combinator is Pending with no wake-up outstanding",
                            w.children[x].label,
                            latest_k.unwrap_or(0)
                        ));
                    }
                }
                // progress: a combinator must not go to sleep on an input it has to poll again
                for x in 0..n {
                    if dropped[x] || w.children[x].kind != Kind::Stream {
                        continue;
                    }
                    if let Some((_, CRes::Item(_))) = last[x] {
                        let stuck = match sc.family.as_str() {
                            "merge" | "stream_group" => true,
                            "zip" => items[x] == rows,
                            _ => false,
                        };
                        if stuck && !woken {
                            return Some(format!(
                                "no progress: the combinator returned Pending although input {x} yielded an item at its last \
                                 poll, was not polled again and holds no waker; parent waker #{} not invoked",
                                latest_k.unwrap_or(0)
                            ));
                        }
                    }
                }
            }
            _ => {}
        }
    }
    None
}

// ---------------------------------------------------------------------------------------
// C02: drop ledger
// ---------------------------------------------------------------------------------------

fn c02(sc: &Scenario, w: &World) -> Option<String> {
    // a panic of the combinator itself (not injected) is reported by the family's own property
    for s in spans(w) {
        if own_panic(w, &s).is_some() {
            return None;
        }
    }
    if let Some(g) = w.garbage.first() {
        return Some(g.clone());
    }
    let mut held: Vec<u32> = Vec::new();
    let mut child_drops = vec![0usize; w.children.len()];
    let mut val_drops = vec![0usize; w.vals.len()];
    // children / values come into existence over time; track creation by first mention
    let mut child_seen = vec![false; w.children.len()];
    let mut val_seen = vec![false; w.vals.len()];
    for v in w.vals.iter().enumerate().filter(|(_, v)| v.tag == 's') {
        val_seen[v.0] = true;
    }
    for e in &w.log {
        match e {
            Ev::Constructed => {
                // statically built combinators own all their children from construction on, polled or
                // not; group members and closure futures are created later (marked at their creating event)
                if !sc.family.ends_with("_group") && sc.family != "co_stream" {
                    child_seen.iter_mut().for_each(|s| *s = true);
                } else if w.children.first().map(|c| c.label == "src").unwrap_or(false) {
                    child_seen[0] = true;
                }
            }
            Ev::ChildPoll { c, res, .. } => {
                child_seen[*c] = true;
                if let Some(v) = res.val() {
                    val_seen[v as usize] = true;
                }
            }
            Ev::Group(GroupOp::Insert { child, .. }) => child_seen[*child] = true,
            Ev::Group(GroupOp::Extend { children }) => children.iter().for_each(|c| child_seen[*c] = true),
            Ev::Closure { c, .. } => child_seen[*c] = true,
            Ev::ChildDrop { c } => {
                child_seen[*c] = true;
                child_drops[*c] += 1;
                if child_drops[*c] > 1 {
                    return Some(format!("child {c} ({}) dropped twice", w.children[*c].label));
                }
            }
            Ev::ValDrop { v } => {
                val_drops[*v as usize] += 1;
                if val_drops[*v as usize] > 1 {
                    let r = &w.vals[*v as usize];
                    return Some(format!("value v{v} (item #{} of child {}) dropped twice", r.seq, r.child as isize));
                }
            }
            Ev::ParentPollEnd { res: PRes::Ready(s), .. } | Ev::ParentPollEnd { res: PRes::Item(s), .. } => {
                let mut ids = Vec::new();
                s.ids(&mut ids);
                for id in ids {
                    if id == BAD {
                        return Some(format!(
                            "the combinator returned a value that no child produced (uninitialised / foreign memory) in {}",
                            s.show()
                        ));
                    }
                    if held.contains(&id) {
                        return Some(format!("value v{id} returned to the caller twice"));
                    }
                    if val_drops[id as usize] > 0 {
                        return Some(format!("value v{id} returned to the caller after it had been dropped"));
                    }
                    held.push(id);
                }
            }
            Ev::DropEnd { panic } => {
                if let Some(m) = panic {
                    if !w.injected_panic {
                        return Some(format!("dropping the combinator panicked: {m}"));
                    }
                }
                for c in 0..w.children.len() {
                    if child_seen[c] && child_drops[c] == 0 {
                        return Some(format!(
                            "child {c} ({}) is still alive after the combinator's drop returned (leaked / outlives its owner)",
                            w.children[c].label
                        ));
                    }
                }
                for v in 0..w.vals.len() {
                    if val_seen[v] && val_drops[v] == 0 && !held.contains(&(v as u32)) {
                        let r = &w.vals[v];
                        return Some(format!(
                            "value v{v} (item #{} of child {}) was produced, never returned to the caller, and is still \
                             not dropped after the combinator's drop returned (leak)",
                            r.seq, r.child as isize
                        ));
                    }
                }
            }
            Ev::End => {
                for c in 0..w.children.len() {
                    if child_drops[c] != 1 && (child_seen[c] || child_drops[c] > 0) {
                        return Some(format!("child {c} dropped {} times by the end of the scenario", child_drops[c]));
                    }
                }
                for v in 0..w.vals.len() {
                    if val_drops[v] != 1 {
                        return Some(format!("value v{v} dropped {} times by the end of the scenario", val_drops[v]));
                    }
                }
            }
            _ => {}
        }
    }
    None
}

// ---------------------------------------------------------------------------------------
// C03: poll discipline
// ---------------------------------------------------------------------------------------

fn c03(_sc: &Scenario, w: &World) -> Option<String> {
    for e in &w.log {
        if let Ev::ChildPoll { c, j, res, in_parent, .. } = e {
            let ch = &w.children[*c];
            if *res == CRes::AfterDone {
                return Some(format!(
                    "child {c} ({}) was polled again (its poll #{j}) after it had returned {}",
                    ch.label,
                    if ch.kind == Kind::Stream { "None" } else { "Ready" }
                ));
            }
            if !*in_parent {
                return Some(format!("child {c} ({}) was polled outside of a poll of the combinator", ch.label));
            }
        }
    }
    None
}

// ---------------------------------------------------------------------------------------
// C20: concurrent evaluation
// ---------------------------------------------------------------------------------------

fn c20(sc: &Scenario, w: &World) -> Option<String> {
    let n = w.children.len();
    let mut created = vec![false; n];
    let mut dropped = vec![false; n];
    let mut polled = vec![false; n];
    let mut last: Vec<Option<(usize, CRes)>> = vec![None; n];
    let mut fired = vec![false; n];
    let mut need: Vec<usize> = vec![];
    let mut in_span: Vec<usize> = vec![];
    let mut in_span_flag = vec![false; n];
    let is_group = sc.family.ends_with("_group");
    for e in &w.log {
        match e {
            Ev::Constructed if !is_group => created.iter_mut().for_each(|c| *c = true),
            Ev::Group(GroupOp::Insert { child, .. }) => created[*child] = true,
            Ev::Group(GroupOp::Extend { children }) => children.iter().for_each(|c| created[*c] = true),
            Ev::ChildDrop { c } => dropped[*c] = true,
            Ev::ParentPollStart { .. } => {
                need = (0..n).filter(|&x| fired[x] && !dropped[x]).collect();
                in_span.drain(..).for_each(|x| in_span_flag[x] = false);
            }
            Ev::ChildPoll { c, wid, res, .. } => {
                polled[*c] = true;
                in_span.push(*c);
                in_span_flag[*c] = true;
                last[*c] = Some((*wid, *res));
                fired[*c] = false;
            }
            Ev::Wake { wid, .. } => {
                for x in 0..n {
                    if let Some((lw, CRes::Pending)) = last[x] {
                        if lw == *wid {
                            fired[x] = true;
                        }
                    }
                }
            }
            Ev::ParentPollEnd { k, res: PRes::Pending } => {
                if let Some(x) = (0..n).find(|&x| created[x] && !dropped[x] && !polled[x]) {
                    return Some(format!(
                        "poll #{k} returned Pending although child {x} ({}) has never been polled",
                        w.children[x].label
                    ));
                }
                if let Some(x) = need.iter().find(|&&x| !dropped[x] && !in_span_flag[x]) {
                    return Some(format!(
                        "poll #{k} returned Pending without polling child {x}, which had invoked its waker since its last poll \
                         (a woken child was held back)"
                    ));
                }
            }
            _ => {}
        }
    }
    None
}

// ---------------------------------------------------------------------------------------
// C16: selective polling (std only)
// ---------------------------------------------------------------------------------------

fn c16(_sc: &Scenario, w: &World) -> Option<String> {
    if !is_std() {
        return None;
    }
    // times at which each (interned) waker was invoked, ascending
    let mut wake_times: Vec<Vec<usize>> = vec![Vec::new(); w.wakers.len()];
    for (t, e) in w.log.iter().enumerate() {
        if let Ev::Wake { wid, .. } = e {
            if let Some(v) = wake_times.get_mut(*wid) {
                v.push(t);
            }
        }
    }
    for (c, ch) in w.children.iter().enumerate() {
        for j in 1..ch.polls.len() {
            let prev = &ch.polls[j - 1];
            let cur = &ch.polls[j];
            if prev.res != CRes::Pending {
                continue;
            }
            // an invocation of the previous poll's waker in [prev.t, cur.t)
            let woke = wake_times.get(prev.wid).map_or(false, |v| {
                let i = v.partition_point(|t| *t < prev.t);
                i < v.len() && v[i] < cur.t
            });
            if !woke {
                return Some(format!(
                    "child {c} ({}) returned Pending at its poll #{} and was polled again (poll #{j}) although none of its \
                     wakers had been invoked in between",
                    ch.label,
                    j - 1
                ));
            }
        }
    }
    None
}

// ---------------------------------------------------------------------------------------
// C04 join
// ---------------------------------------------------------------------------------------

fn positional(w: &World, n: usize) -> Shape {
    Shape::L((0..n).map(|i| Shape::V(w.children[i].produced.first().copied().unwrap_or(BAD))).collect())
}

fn c04(sc: &Scenario, w: &World) -> Option<String> {
    let n = n_children(sc);
    for s in spans(w) {
        if let Some(m) = own_panic(w, &s) {
            return Some(m);
        }
        if matches!(s.res, PRes::Panic(_)) {
            return None;
        }
        let all_done = (0..n).all(|c| done_by(w, c, s.end));
        if all_done {
            let want = PRes::Ready(positional(w, n));
            if let Some(m) = expect(&s, &want, "every child has resolved; output must hold child i's value at position i") {
                return Some(m);
            }
        } else if let Some(m) = expect(&s, &PRes::Pending, "some child has not resolved yet") {
            return Some(m);
        }
    }
    None
}

// ---------------------------------------------------------------------------------------
// C05 try_join
// ---------------------------------------------------------------------------------------

fn c05(sc: &Scenario, w: &World) -> Option<String> {
    let n = n_children(sc);
    for s in spans(w) {
        if let Some(m) = own_panic(w, &s) {
            return Some(m);
        }
        if matches!(s.res, PRes::Panic(_)) {
            return None;
        }
        if let Some(p) = s.polls.iter().find(|p| matches!(p.res, CRes::Err(_))) {
            let v = p.res.val().unwrap();
            let want = PRes::Ready(Shape::Err(Box::new(Shape::V(v))));
            if let Some(m) = expect(&s, &want, &format!("child {} was the first child seen to fail", p.c)) {
                return Some(m);
            }
            if let Some(q) = polls_after(&s, p.t) {
                return Some(format!("poll #{}: child {} was polled after child {} had failed", s.k, q.c, p.c));
            }
            continue;
        }
        let all_done = (0..n).all(|c| done_by(w, c, s.end));
        if all_done {
            let want = PRes::Ready(Shape::Ok(Box::new(positional(w, n))));
            if let Some(m) = expect(&s, &want, "every child resolved to Ok") {
                return Some(m);
            }
        } else if let Some(m) = expect(&s, &PRes::Pending, "no failure seen and some child unresolved") {
            return Some(m);
        }
    }
    None
}

// ---------------------------------------------------------------------------------------
// C06 race
// ---------------------------------------------------------------------------------------

fn c06(sc: &Scenario, w: &World) -> Option<String> {
    use crate::world::Step;
    for s in spans(w) {
        if let Some(m) = own_panic(w, &s) {
            return Some(m);
        }
        if matches!(s.res, PRes::Panic(_)) {
            return None;
        }
        if let Some(p) = s.polls.iter().find(|p| matches!(p.res, CRes::Ready(_))) {
            let want = PRes::Ready(Shape::V(p.res.val().unwrap()));
            if let Some(m) = expect(&s, &want, &format!("child {} was the first child seen to resolve", p.c)) {
                return Some(m);
            }
            if let Some(q) = polls_after(&s, p.t) {
                return Some(format!("poll #{}: child {} was polled after child {} had already won the race", s.k, q.c, p.c));
            }
        } else if let Some(m) = expect(&s, &PRes::Pending, "no child resolved in this poll") {
            return Some(m);
        } else if let Some(c) = unpolled_but_ready(sc, w, s.end, &[Step::Ready, Step::Ok, Step::Err, Step::Item]) {
            return Some(format!(
                "poll #{}: the race returned Pending although child {c} resolves at its first poll and has never been \
                 polled (a race over children that are ready must resolve)",
                s.k
            ));
        }
    }
    None
}

// ---------------------------------------------------------------------------------------
// C07 race_ok
// ---------------------------------------------------------------------------------------

fn c07(sc: &Scenario, w: &World) -> Option<String> {
    use crate::world::Step;
    let n = n_children(sc);
    for s in spans(w) {
        if let Some(m) = own_panic(w, &s) {
            return Some(m);
        }
        if matches!(s.res, PRes::Panic(_)) {
            return None;
        }
        if let Some(p) = s.polls.iter().find(|p| matches!(p.res, CRes::Ok(_))) {
            let want = PRes::Ready(Shape::Ok(Box::new(Shape::V(p.res.val().unwrap()))));
            if let Some(m) = expect(&s, &want, &format!("child {} was the first child seen to succeed", p.c)) {
                return Some(m);
            }
            if let Some(q) = polls_after(&s, p.t) {
                return Some(format!("poll #{}: child {} was polled after child {} had succeeded", s.k, q.c, p.c));
            }
            continue;
        }
        let all_failed = (0..n).all(|c| done_by(w, c, s.end));
        if all_failed {
            let want = PRes::Ready(Shape::Err(Box::new(positional(w, n))));
            if let Some(m) = expect(&s, &want, "every child failed; aggregate must hold child i's error at position i") {
                return Some(m);
            }
        } else if let Some(m) = expect(&s, &PRes::Pending, "no success seen and some child unresolved") {
            return Some(m);
        } else if let Some(c) = unpolled_but_ready(sc, w, s.end, &[Step::Ok, Step::Ready, Step::Item]) {
            return Some(format!(
                "poll #{}: race_ok returned Pending although child {c} succeeds at its first poll and has never been polled",
                s.k
            ));
        }
    }
    None
}

// ---------------------------------------------------------------------------------------
// C08 merge
// ---------------------------------------------------------------------------------------

fn c08(sc: &Scenario, w: &World) -> Option<String> {
    let n = n_children(sc);
    let mut yielded: Vec<u32> = vec![];
    let mut ended = false;
    for s in spans(w) {
        if let Some(m) = own_panic(w, &s) {
            return Some(m);
        }
        if matches!(s.res, PRes::Panic(_)) {
            return None;
        }
        let items: Vec<&CP> = s.polls.iter().filter(|p| matches!(p.res, CRes::Item(_))).collect();
        if items.len() > 1 {
            return Some(format!(
                "poll #{}: inputs {} and {} both handed over an item in one poll; only one can be yielded",
                s.k, items[0].c, items[1].c
            ));
        }
        if let Some(p) = items.first() {
            let v = p.res.val().unwrap();
            let want = PRes::Item(Shape::V(v));
            if let Some(m) = expect(&s, &want, &format!("input {} handed over an item in this poll", p.c)) {
                return Some(m);
            }
            yielded.push(v);
            continue;
        }
        let all_ended = (0..n).all(|c| done_by(w, c, s.end));
        if all_ended {
            if let Some(m) = expect(&s, &PRes::None, "all inputs have ended (zero inputs: on the first poll)") {
                return Some(m);
            }
            ended = true;
        } else if let Some(m) = expect(&s, &PRes::Pending, "no input had an item and some input has not ended") {
            return Some(m);
        }
    }
    // exactly once + per-input order
    let mut produced: Vec<u32> = vec![];
    for c in 0..n.min(w.children.len()) {
        produced.extend(w.children[c].produced.iter().copied());
    }
    for (i, v) in yielded.iter().enumerate() {
        if yielded[..i].contains(v) {
            return Some(format!("item v{v} yielded twice"));
        }
    }
    for c in 0..n.min(w.children.len()) {
        let mine: Vec<u32> = yielded.iter().copied().filter(|v| w.vals[*v as usize].child == c).collect();
        if ended && mine != w.children[c].produced {
            return Some(format!(
                "items of input {c}: produced {:?} but the merged stream yielded {:?} before ending",
                w.children[c].produced, mine
            ));
        }
        let mut sorted = mine.clone();
        sorted.sort();
        if sorted != mine {
            return Some(format!("items of input {c} were yielded out of order: {mine:?}"));
        }
    }
    None
}

// ---------------------------------------------------------------------------------------
// C09 zip
// ---------------------------------------------------------------------------------------

fn c09(sc: &Scenario, w: &World) -> Option<String> {
    let n = n_children(sc);
    let mut buf: Vec<Option<u32>> = vec![None; n];
    for s in spans(w) {
        if let Some(m) = own_panic(w, &s) {
            return Some(m);
        }
        if matches!(s.res, PRes::Panic(_)) {
            return None;
        }
        let mut decided = false;
        for p in &s.polls {
            if decided {
                return Some(format!("poll #{}: input {} was polled after the outcome of the poll was determined", s.k, p.c));
            }
            match p.res {
                CRes::Item(v) => {
                    if buf[p.c].is_some() {
                        return Some(format!(
                            "poll #{}: a second item was taken from input {} before the current row was complete",
                            s.k, p.c
                        ));
                    }
                    buf[p.c] = Some(v);
                    if buf.iter().all(|b| b.is_some()) {
                        let row = Shape::L(buf.iter().map(|b| Shape::V(b.unwrap())).collect());
                        if let Some(m) = expect(&s, &PRes::Item(row), "the row of k-th items became complete in this poll") {
                            return Some(m);
                        }
                        buf.iter_mut().for_each(|b| *b = None);
                        decided = true;
                    }
                }
                CRes::End => {
                    if let Some(m) = expect(&s, &PRes::None, &format!("input {} was found to have ended", p.c)) {
                        return Some(m);
                    }
                    decided = true;
                }
                _ => {}
            }
        }
        if !decided {
            if let Some(m) = expect(&s, &PRes::Pending, "row incomplete and no input ended") {
                return Some(m);
            }
        }
    }
    None
}

// ---------------------------------------------------------------------------------------
// C10 chain
// ---------------------------------------------------------------------------------------

fn c10(sc: &Scenario, w: &World) -> Option<String> {
    let n = n_children(sc);
    for s in spans(w) {
        if let Some(m) = own_panic(w, &s) {
            return Some(m);
        }
        if matches!(s.res, PRes::Panic(_)) {
            return None;
        }
        let mut decided = false;
        for p in &s.polls {
            if decided {
                return Some(format!("poll #{}: input {} was polled after an item had been obtained", s.k, p.c));
            }
            if let Some(e) = (0..p.c).find(|&e| !done_by(w, e, p.t)) {
                return Some(format!("poll #{}: input {} was polled before the earlier input {e} had ended", s.k, p.c));
            }
            if let CRes::Item(v) = p.res {
                if let Some(m) = expect(&s, &PRes::Item(Shape::V(v)), &format!("input {} yielded an item", p.c)) {
                    return Some(m);
                }
                decided = true;
            }
        }
        if !decided {
            let all = (0..n).all(|c| done_by(w, c, s.end));
            let want = if all { PRes::None } else { PRes::Pending };
            if let Some(m) = expect(&s, &want, if all { "the last input has ended" } else { "current input is pending" }) {
                return Some(m);
            }
        }
    }
    None
}

// ---------------------------------------------------------------------------------------
// C17 merge fairness
// ---------------------------------------------------------------------------------------

fn c17(sc: &Scenario, w: &World) -> Option<String> {
    use crate::world::Step;
    let n = n_children(sc);
    if n == 0 {
        return None;
    }
    let yields: Vec<usize> = spans(w)
        .iter()
        .filter_map(|s| match &s.res {
            PRes::Item(Shape::V(v)) if *v != BAD => Some(w.vals[*v as usize].child),
            _ => None,
        })
        .collect();
    for p in 0..n {
        let script = &sc.children[p];
        let total = script.iter().filter(|s| **s == Step::Item).count();
        let always_ready = total > 0 && script.iter().all(|s| matches!(s, Step::Item | Step::End));
        if !always_ready {
            continue;
        }
        if yields.len() < n {
            continue;
        }
        // maximal stretches [a, e) of yields without an item of p; `before` = items of p yielded before the
        // stretch. The first window of n yields inside such a stretch (if it is that long) starts at a.
        let mut before = 0usize;
        let mut a = 0usize;
        while a < yields.len() {
            if yields[a] == p {
                before += 1;
                a += 1;
                continue;
            }
            let mut e = a;
            while e < yields.len() && yields[e] != p {
                e += 1;
            }
            if e - a >= n && before < total {
                let window = &yields[a..a + n];
                return Some(format!(
                    "input {p} has an item available at every poll, yet yields #{a}..#{} ({} consecutive items of a merge of {n}) \
                     came from inputs {:?} only",
                    a + n - 1,
                    n,
                    window
                ));
            }
            a = e;
        }
    }
    None
}

// ---------------------------------------------------------------------------------------
// C19 wait_until
// ---------------------------------------------------------------------------------------

fn c19(_sc: &Scenario, w: &World) -> Option<String> {
    let (d, i) = (0usize, 1usize);
    for s in spans(w) {
        if let Some(m) = own_panic(w, &s) {
            return Some(m);
        }
        if matches!(s.res, PRes::Panic(_)) {
            return None;
        }
        let deadline_done_before = done_by(w, d, s.start);
        let dp: Vec<&CP> = s.polls.iter().filter(|p| p.c == d).collect();
        let ip: Vec<&CP> = s.polls.iter().filter(|p| p.c == i).collect();
        let mut inner_expected = deadline_done_before;
        if deadline_done_before {
            if !dp.is_empty() {
                return Some(format!("poll #{}: the deadline was polled again after it had resolved", s.k));
            }
        } else {
            if dp.len() != 1 {
                return Some(format!("poll #{}: the deadline was polled {} times (expected once)", s.k, dp.len()));
            }
            if let Some(x) = ip.first() {
                if x.t < dp[0].t {
                    return Some(format!("poll #{}: the inner future/stream was polled before the deadline", s.k));
                }
            }
            if dp[0].res.is_final() {
                inner_expected = true;
            } else if !ip.is_empty() {
                return Some(format!("poll #{}: the inner future/stream was polled although the deadline is still pending", s.k));
            }
        }
        if inner_expected {
            if ip.len() != 1 {
                return Some(format!(
                    "poll #{}: the inner future/stream was polled {} times in a poll at/after the deadline (expected once)",
                    s.k,
                    ip.len()
                ));
            }
            let want = match ip[0].res {
                CRes::Ready(v) => PRes::Ready(Shape::V(v)),
                CRes::Item(v) => PRes::Item(Shape::V(v)),
                CRes::End => PRes::None,
                _ => PRes::Pending,
            };
            if let Some(m) = expect(&s, &want, "after the deadline the combinator behaves exactly like the inner one") {
                return Some(m);
            }
        } else if let Some(m) = expect(&s, &PRes::Pending, "deadline still pending") {
            return Some(m);
        }
    }
    None
}

// ---------------------------------------------------------------------------------------
// C11 / C12 groups against a reference model
// ---------------------------------------------------------------------------------------

#[derive(Clone, Debug)]
struct Member {
    child: usize,
    key: Option<usize>,
}

fn c11_12(sc: &Scenario, w: &World) -> Option<String> {
    let is_future = sc.family == "future_group";
    let mut live: Vec<Member> = vec![];
    let mut yielded_from: Vec<usize> = vec![0; w.children.len()];
    let mut drops_since_q: Vec<usize> = vec![];
    let mut span_polls: Vec<(usize, CRes)> = vec![];
    let mut in_span = false;
    let mut polled: Vec<bool> = vec![false; w.children.len()];
    for e in &w.log {
        match e {
            Ev::Quiescent => drops_since_q.clear(),
            Ev::ChildDrop { c } => drops_since_q.push(*c),
            Ev::Group(GroupOp::Insert { child, key }) => {
                if let Some(m) = live.iter().find(|m| m.key == Some(*key)) {
                    return Some(format!(
                        "insert returned key {key} for child {child} while child {} is still live under the same key",
                        m.child
                    ));
                }
                live.push(Member { child: *child, key: Some(*key) });
            }
            Ev::Group(GroupOp::Extend { children }) => {
                for c in children {
                    live.push(Member { child: *c, key: None });
                }
            }
            Ev::Group(GroupOp::Remove { key, ret }) => {
                let known = live.iter().position(|m| m.key == Some(*key));
                if *ret {
                    if drops_since_q.len() != 1 {
                        return Some(format!(
                            "remove(key {key}) returned true but dropped {} members (expected exactly one, at removal)",
                            drops_since_q.len()
                        ));
                    }
                    let d = drops_since_q[0];
                    let pos = match live.iter().position(|m| m.child == d) {
                        Some(p) => p,
                        None => return Some(format!("remove(key {key}) dropped child {d}, which is not a live member")),
                    };
                    if let Some(k) = known {
                        if k != pos {
                            return Some(format!(
                                "remove(key {key}) removed child {d} instead of child {} which holds that key",
                                live[k].child
                            ));
                        }
                    } else if live[pos].key.is_some() {
                        return Some(format!(
                            "remove(key {key}) removed child {d} whose key is {:?}",
                            live[pos].key
                        ));
                    }
                    live.remove(pos);
                } else {
                    if let Some(k) = known {
                        return Some(format!(
                            "remove(key {key}) returned false although child {} is live under that key",
                            live[k].child
                        ));
                    }
                    if !drops_since_q.is_empty() {
                        return Some(format!("remove(key {key}) returned false but dropped a member"));
                    }
                }
            }
            Ev::Group(GroupOp::View { len, is_empty, cap, contains }) => {
                if *len != live.len() {
                    return Some(format!(
                        "len() = {len} but {} members were inserted and neither yielded/ended nor removed ({:?})",
                        live.len(),
                        live.iter().map(|m| m.child).collect::<Vec<_>>()
                    ));
                }
                if *is_empty != live.is_empty() {
                    return Some(format!("is_empty() = {is_empty} with {} live members", live.len()));
                }
                if *cap < *len {
                    return Some(format!("capacity() = {cap} dropped below len() = {len}"));
                }
                let unknown = live.iter().any(|m| m.key.is_none());
                for (k, b) in contains {
                    let has = live.iter().any(|m| m.key == Some(*k));
                    if has && !*b {
                        return Some(format!("contains_key({k}) = false although a live member holds key {k}"));
                    }
                    if !has && !unknown && *b {
                        return Some(format!("contains_key({k}) = true although no live member holds key {k}"));
                    }
                }
            }
            Ev::Group(GroupOp::Reserve { .. }) => {}
            Ev::ParentPollStart { .. } => {
                in_span = true;
                span_polls.clear();
            }
            Ev::ChildPoll { c, res, .. } if in_span => {
                polled[*c] = true;
                if !live.iter().any(|m| m.child == *c) {
                    return Some(format!("child {c} was polled although it is not a live member (removed / finished)"));
                }
                if let Some((pc, pr)) = span_polls.iter().find(|(_, r)| matches!(r, CRes::Ready(_) | CRes::Item(_))) {
                    return Some(format!(
                        "child {c} was polled in the same poll after child {pc} had already produced {:?}",
                        pr
                    ));
                }
                span_polls.push((*c, *res));
            }
            Ev::ParentPollEnd { k, res } => {
                in_span = false;
                if let PRes::Panic(m) = res {
                    if !w.injected_panic {
                        return Some(format!("poll #{k} of the group panicked: {m}"));
                    }
                    return None;
                }
                // members whose stream ended in this poll leave the group
                for (c, r) in &span_polls {
                    if *r == CRes::End {
                        live.retain(|m| m.child != *c);
                    }
                }
                let produced = span_polls.iter().find(|(_, r)| matches!(r, CRes::Ready(_) | CRes::Item(_)));
                match (res, produced) {
                    (PRes::Item(shape), Some((c, r))) => {
                        let v = r.val().unwrap();
                        let (key, inner) = match shape {
                            Shape::Idx(k, inner) => (Some(*k), (**inner).clone()),
                            other => (None, other.clone()),
                        };
                        if inner != Shape::V(v) {
                            return Some(format!(
                                "poll #{k}: member {c} produced v{v} but the group yielded {}",
                                shape.show()
                            ));
                        }
                        let pos = live.iter().position(|m| m.child == *c).unwrap();
                        if let Some(kk) = key {
                            match live[pos].key {
                                Some(mk) if mk != kk => {
                                    return Some(format!(
                                        "poll #{k}: item of member {c} (inserted under key {mk}) was yielded with key {kk}"
                                    ));
                                }
                                None => live[pos].key = Some(kk),
                                _ => {}
                            }
                        }
                        if w.vals[v as usize].seq != yielded_from[*c] {
                            return Some(format!("poll #{k}: items of member {c} yielded out of order"));
                        }
                        yielded_from[*c] += 1;
                        if is_future {
                            live.remove(pos);
                        }
                    }
                    (PRes::Item(shape), None) => {
                        return Some(format!(
                            "poll #{k}: the group yielded {} although no member produced a value in this poll",
                            shape.show()
                        ));
                    }
                    (other, Some((c, r))) => {
                        return Some(format!(
                            "poll #{k}: member {c} produced {:?} but the group returned {}",
                            r,
                            other.show()
                        ));
                    }
                    (PRes::None, None) => {
                        if !live.is_empty() {
                            return Some(format!(
                                "poll #{k} returned None although members {:?} remain",
                                live.iter().map(|m| m.child).collect::<Vec<_>>()
                            ));
                        }
                    }
                    (PRes::Pending, None) => {
                        if live.is_empty() {
                            return Some(format!("poll #{k} returned Pending although the group is empty (expected None)"));
                        }
                        // "Pending" says that no live member has a value now: every one of them must have been asked
                        if let Some(m) = live.iter().find(|m| !polled[m.child]) {
                            return Some(format!(
                                "poll #{k} returned Pending although the live member {} ({}) has never been polled",
                                m.child, w.children[m.child].label
                            ));
                        }
                    }
                    _ => {}
                }
            }
            _ => {}
        }
    }
    None
}

// ---------------------------------------------------------------------------------------
// C13 / C14 / C15 concurrent streams
// ---------------------------------------------------------------------------------------

struct CoFacts {
    /// source length
    len: usize,
    /// items the stack is expected to process (source positions 0..expected)
    expected: usize,
    /// effective concurrency limit (None = unlimited)
    limit: Option<usize>,
    /// stages with a closure: m<i>, t, r
    stages: Vec<String>,
    /// closure calls per stage: item indices in call order
    calls: Vec<(String, Vec<usize>)>,
    resolved: Option<(usize, Shape)>,
    source_vals: Vec<u32>,
}

fn co_facts(sc: &Scenario, w: &World) -> Option<CoFacts> {
    use crate::world::Step;
    let co = sc.co.as_ref()?;
    let len = if co.source == "co" {
        sc.children.first().map(|s| s.iter().filter(|x| **x == Step::Item).count()).unwrap_or(0)
    } else {
        co.len
    };
    let mut expected = len;
    let mut limit = None;
    let mut stages = vec![];
    for (i, a) in co.stack.iter().enumerate() {
        match a {
            Adapter::Take(n) => expected = expected.min(*n),
            Adapter::Limit(n) => limit = if *n == 0 { None } else { Some(*n) },
            Adapter::Map => stages.push(format!("m{i}")),
            Adapter::Enumerate => {}
        }
    }
    match co.terminal.as_str() {
        "for_each" | "try_for_each" => stages.push("t".into()),
        "collect_result" => stages.push("r".into()),
        _ => {}
    }
    let mut calls: Vec<(String, Vec<usize>)> = stages.iter().map(|s| (s.clone(), vec![])).collect();
    let mut resolved = None;
    for (t, e) in w.log.iter().enumerate() {
        match e {
            Ev::Closure { stage, item, .. } => {
                if let Some(c) = calls.iter_mut().find(|c| &c.0 == stage) {
                    c.1.push(*item);
                }
            }
            Ev::ParentPollEnd { res: PRes::Ready(s), .. } => resolved = Some((t, s.clone())),
            _ => {}
        }
    }
    let source_vals: Vec<u32> = if co.source == "co" {
        w.children.first().map(|c| c.produced.clone()).unwrap_or_default()
    } else {
        w.vals.iter().enumerate().filter(|(_, v)| v.tag == 's').map(|(i, _)| i as u32).collect()
    };
    Some(CoFacts { len, expected, limit, stages, calls, resolved, source_vals })
}

fn co_panic(w: &World) -> Option<String> {
    for s in spans(w) {
        if let Some(m) = own_panic(w, &s) {
            return Some(m);
        }
    }
    None
}

/// `{got:?}` for short lists; for long ones (large scenarios) the length plus what is missing / unexpected
fn show_items(got: &[usize], want: &[usize]) -> String {
    if got.len().max(want.len()) <= 24 {
        return format!("{got:?}");
    }
    let missing: Vec<usize> = want.iter().copied().filter(|x| !got.contains(x)).collect();
    let extra: Vec<usize> = got.iter().copied().filter(|x| !want.contains(x)).collect();
    format!("[{} items: missing {missing:?}, unexpected {extra:?}]", got.len())
}

fn show_want(want: &[usize]) -> String {
    if want.len() <= 24 {
        format!("{want:?}")
    } else {
        format!("[0..{}]", want.len())
    }
}

fn dup(v: &[usize]) -> Option<usize> {
    (0..v.len()).find(|&i| v[..i].contains(&v[i])).map(|i| v[i])
}

fn c13(sc: &Scenario, w: &World) -> Option<String> {
    let f = co_facts(sc, w)?;
    if sc.co.as_ref()?.terminal != "for_each" {
        return None;
    }
    if let Some(m) = co_panic(w) {
        return Some(m);
    }
    if w.injected_panic {
        return None;
    }
    let t_calls = &f.calls.iter().find(|c| c.0 == "t")?.1;
    if let Some(d) = dup(t_calls) {
        return Some(format!("the for_each closure was invoked twice for source item {d}"));
    }
    if let Some(n) = f.limit {
        let max = w.live_closure_futs.iter().find(|e| e.0 == "t").map(|e| e.2).unwrap_or(0);
        if max > n as isize {
            return Some(format!("{max} closure futures were in flight at the same time under limit({n})"));
        }
    }
    if let Some((t, _)) = &f.resolved {
        let mut sorted = t_calls.clone();
        sorted.sort();
        let want: Vec<usize> = (0..f.expected).collect();
        if sorted != want {
            return Some(format!(
                "for_each resolved after invoking the closure for source items {}; expected exactly {} \
                 (source length {}, stack {:?})",
                show_items(&sorted, &want),
                show_want(&want),
                f.len,
                sc.co.as_ref().unwrap().stack.iter().map(|a| a.to_str()).collect::<Vec<_>>()
            ));
        }
        for (c, ch) in w.children.iter().enumerate() {
            if ch.label.starts_with("t:") && !done_by(w, c, *t) {
                return Some(format!("for_each resolved although the closure future {} had not completed", ch.label));
            }
        }
    }
    None
}

fn c14(sc: &Scenario, w: &World) -> Option<String> {
    let f = co_facts(sc, w)?;
    let term = sc.co.as_ref()?.terminal.clone();
    let stage = match term.as_str() {
        "try_for_each" => "t",
        "collect_result" => "r",
        _ => return None,
    };
    if let Some(m) = co_panic(w) {
        return Some(m);
    }
    if w.injected_panic {
        return None;
    }
    // errors returned by work futures of the fallible stage, in time order
    let mut errs: Vec<(usize, u32, usize)> = vec![]; // (time, val, child)
    for (c, ch) in w.children.iter().enumerate() {
        if ch.label.starts_with(&format!("{stage}:")) {
            for p in &ch.polls {
                if let CRes::Err(v) = p.res {
                    errs.push((p.t, v, c));
                }
            }
        }
    }
    errs.sort();
    if let Some((t0, _, ec)) = errs.first() {
        // after the first error: no item is taken from the source, nothing else is driven
        for (t, e) in w.log.iter().enumerate().skip(*t0 + 1) {
            match e {
                Ev::ChildPoll { c, .. } if w.children[*c].label == "src" => {
                    return Some(format!(
                        "the source stream was polled again after {} had returned Err",
                        w.children[*ec].label
                    ));
                }
                Ev::Closure { stage: st, item, .. } if t > *t0 => {
                    return Some(format!(
                        "closure of stage {st} invoked for source item {item} after {} had returned Err",
                        w.children[*ec].label
                    ));
                }
                _ => {}
            }
        }
    }
    if let Some((t, shape)) = &f.resolved {
        match shape {
            Shape::Ok(inner) => {
                if let Some((_, v, c)) = errs.first() {
                    return Some(format!(
                        "{term} resolved to Ok although {} had returned Err(v{v}) (error swallowed)",
                        w.children[*c].label
                    ));
                }
                let calls = &f.calls.iter().find(|c| c.0 == stage)?.1;
                let mut sorted = calls.clone();
                sorted.sort();
                let want: Vec<usize> = (0..f.expected).collect();
                if sorted != want {
                    return Some(format!(
                        "{term} resolved to Ok after processing source items {}; expected {}",
                        show_items(&sorted, &want),
                        show_want(&want)
                    ));
                }
                for (c, ch) in w.children.iter().enumerate() {
                    if ch.label.starts_with(&format!("{stage}:")) && !done_by(w, c, *t) {
                        return Some(format!("{term} resolved to Ok although {} had not completed", ch.label));
                    }
                }
                if let Shape::L(items) = &**inner {
                    if items.len() != f.expected {
                        return Some(format!("collect returned Ok with {} items; expected {}", items.len(), f.expected));
                    }
                }
            }
            Shape::Err(inner) => match &**inner {
                Shape::V(v) if errs.iter().any(|e| e.1 == *v) => {}
                other => {
                    return Some(format!(
                        "{term} resolved to Err({}) which is not an error that one of the futures returned ({:?})",
                        other.show(),
                        errs.iter().map(|e| e.1).collect::<Vec<_>>()
                    ));
                }
            },
            other => return Some(format!("{term} resolved to an unexpected value {}", other.show())),
        }
    }
    None
}

fn c15(sc: &Scenario, w: &World) -> Option<String> {
    let f = co_facts(sc, w)?;
    let co = sc.co.as_ref()?;
    if let Some(m) = co_panic(w) {
        return Some(m);
    }
    if w.injected_panic {
        return None;
    }
    for (st, calls) in &f.calls {
        if let Some(d) = dup(calls) {
            return Some(format!("closure of stage {st} invoked twice for source item {d}"));
        }
        if let Some(x) = calls.iter().find(|i| **i >= f.expected) {
            return Some(format!(
                "closure of stage {st} invoked for source item {x}, but the stack {:?} over a source of {} items must \
                 process exactly the first {} items",
                co.stack.iter().map(|a| a.to_str()).collect::<Vec<_>>(),
                f.len,
                f.expected
            ));
        }
    }
    let (_, shape) = f.resolved.as_ref()?;
    // outcome with an error: nothing more to say here (C14)
    let ok_shape = match (co.terminal.as_str(), shape) {
        ("collect", s) => Some(s.clone()),
        ("collect_result", Shape::Ok(s)) => Some((**s).clone()),
        ("for_each", _) => None,
        ("try_for_each", Shape::Ok(_)) => None,
        _ => return None,
    };
    let want: Vec<usize> = (0..f.expected).collect();
    for (st, calls) in &f.calls {
        let mut sorted = calls.clone();
        sorted.sort();
        if sorted != want {
            return Some(format!(
                "operation resolved with closure of stage {st} invoked for source items {}; expected exactly {}",
                show_items(&sorted, &want),
                show_want(&want)
            ));
        }
    }
    if let Some(Shape::L(items)) = ok_shape {
        let n_enum = co.stack.iter().filter(|a| **a == Adapter::Enumerate).count();
        let mut got: Vec<usize> = vec![];
        for it in &items {
            // peel enumerate layers
            let mut cur = it;
            let mut idxs = vec![];
            while let Shape::Idx(i, inner) = cur {
                idxs.push(*i);
                cur = inner;
            }
            let v = match cur {
                Shape::V(v) if *v != BAD => *v,
                other => return Some(format!("collect returned a foreign value {}", other.show())),
            };
            let pos = match f.source_vals.iter().position(|s| *s == v) {
                Some(p) => p,
                None => return Some(format!("collect returned v{v}, which is not a source item")),
            };
            if idxs.len() != n_enum {
                return Some(format!("item {} carries {} enumerate indices; expected {n_enum}", it.show(), idxs.len()));
            }
            if let Some(i) = idxs.iter().find(|i| **i != pos) {
                return Some(format!(
                    "enumerate paired source item #{pos} with index {i} (output element {})",
                    it.show()
                ));
            }
            got.push(pos);
        }
        got.sort();
        if got != want {
            return Some(format!(
                "collect returned the outputs for source items {}; expected exactly {} \
                 (source length {}, stack {:?})",
                show_items(&got, &want),
                show_want(&want),
                f.len,
                co.stack.iter().map(|a| a.to_str()).collect::<Vec<_>>()
            ));
        }
    }
    let _ = &f.stages;
    None
}
