//! Minimal JSON value, parser and printer (no external crates are available offline).

use std::collections::BTreeMap;

#[derive(Clone, Debug, PartialEq)]
pub enum J {
    Null,
    Bool(bool),
    Num(f64),
    Str(String),
    Arr(Vec<J>),
    Obj(BTreeMap<String, J>),
}

impl J {
    pub fn obj(pairs: Vec<(&str, J)>) -> J {
        J::Obj(pairs.into_iter().map(|(k, v)| (k.to_string(), v)).collect())
    }
    pub fn s(x: &str) -> J {
        J::Str(x.to_string())
    }
    pub fn n(x: usize) -> J {
        J::Num(x as f64)
    }
    pub fn get(&self, k: &str) -> Option<&J> {
        match self {
            J::Obj(m) => m.get(k),
            _ => None,
        }
    }
    pub fn as_str(&self) -> Option<&str> {
        match self {
            J::Str(s) => Some(s),
            _ => None,
        }
    }
    pub fn as_usize(&self) -> Option<usize> {
        match self {
            J::Num(n) if *n >= 0.0 && n.fract() == 0.0 => Some(*n as usize),
            _ => None,
        }
    }
    pub fn as_bool(&self) -> Option<bool> {
        match self {
            J::Bool(b) => Some(*b),
            _ => None,
        }
    }
    pub fn as_arr(&self) -> Option<&Vec<J>> {
        match self {
            J::Arr(a) => Some(a),
            _ => None,
        }
    }
    pub fn to_string(&self) -> String {
        let mut s = String::new();
        self.write(&mut s);
        s
    }
    fn write(&self, out: &mut String) {
        match self {
            J::Null => out.push_str("null"),
            J::Bool(b) => out.push_str(if *b { "true" } else { "false" }),
            J::Num(n) => {
                if n.fract() == 0.0 && n.abs() < 1e15 {
                    out.push_str(&format!("{}", *n as i64));
                } else {
                    out.push_str(&format!("{n}"));
                }
            }
            J::Str(s) => write_str(s, out),
            J::Arr(a) => {
                out.push('[');
                for (i, x) in a.iter().enumerate() {
                    if i > 0 {
                        out.push(',');
                    }
                    x.write(out);
                }
                out.push(']');
            }
            J::Obj(m) => {
                out.push('{');
                for (i, (k, v)) in m.iter().enumerate() {
                    if i > 0 {
                        out.push(',');
                    }
                    write_str(k, out);
                    out.push(':');
                    v.write(out);
                }
                out.push('}');
            }
        }
    }
}

fn write_str(s: &str, out: &mut String) {
    out.push('"');
    for c in s.chars() {
        match c {
            '"' => out.push_str("\\\""),
            '\\' => out.push_str("\\\\"),
            '\n' => out.push_str("\\n"),
            '\r' => out.push_str("\\r"),
            '\t' => out.push_str("\\t"),
            c if (c as u32) < 0x20 => out.push_str(&format!("\\u{:04x}", c as u32)),
            c => out.push(c),
        }
    }
    out.push('"');
}

pub fn parse(src: &str) -> Result<J, String> {
    let b: Vec<char> = src.chars().collect();
    let mut p = P { b: &b, i: 0 };
    p.ws();
    let v = p.val()?;
    p.ws();
    if p.i != b.len() {
        return Err(format!("trailing characters at offset {}", p.i));
    }
    Ok(v)
}

struct P<'a> {
    b: &'a [char],
    i: usize,
}

impl<'a> P<'a> {
    fn ws(&mut self) {
        while self.i < self.b.len() && self.b[self.i].is_whitespace() {
            self.i += 1;
        }
    }
    fn peek(&self) -> Option<char> {
        self.b.get(self.i).copied()
    }
    fn expect(&mut self, c: char) -> Result<(), String> {
        if self.peek() == Some(c) {
            self.i += 1;
            Ok(())
        } else {
            Err(format!("expected {c:?} at offset {}", self.i))
        }
    }
    fn lit(&mut self, word: &str, v: J) -> Result<J, String> {
        for c in word.chars() {
            self.expect(c)?;
        }
        Ok(v)
    }
    fn val(&mut self) -> Result<J, String> {
        match self.peek() {
            None => Err("unexpected end of input".into()),
            Some('n') => self.lit("null", J::Null),
            Some('t') => self.lit("true", J::Bool(true)),
            Some('f') => self.lit("false", J::Bool(false)),
            Some('"') => Ok(J::Str(self.string()?)),
            Some('[') => {
                self.i += 1;
                let mut a = Vec::new();
                self.ws();
                if self.peek() == Some(']') {
                    self.i += 1;
                    return Ok(J::Arr(a));
                }
                loop {
                    self.ws();
                    a.push(self.val()?);
                    self.ws();
                    match self.peek() {
                        Some(',') => self.i += 1,
                        Some(']') => {
                            self.i += 1;
                            return Ok(J::Arr(a));
                        }
                        _ => return Err(format!("expected , or ] at offset {}", self.i)),
                    }
                }
            }
            Some('{') => {
                self.i += 1;
                let mut m = BTreeMap::new();
                self.ws();
                if self.peek() == Some('}') {
                    self.i += 1;
                    return Ok(J::Obj(m));
                }
                loop {
                    self.ws();
                    let k = self.string()?;
                    self.ws();
                    self.expect(':')?;
                    self.ws();
                    let v = self.val()?;
                    m.insert(k, v);
                    self.ws();
                    match self.peek() {
                        Some(',') => self.i += 1,
                        Some('}') => {
                            self.i += 1;
                            return Ok(J::Obj(m));
                        }
                        _ => return Err(format!("expected , or }} at offset {}", self.i)),
                    }
                }
            }
            Some(c) if c == '-' || c.is_ascii_digit() => {
                let st = self.i;
                while self
                    .peek()
                    .map(|c| c.is_ascii_digit() || matches!(c, '-' | '+' | '.' | 'e' | 'E'))
                    .unwrap_or(false)
                {
                    self.i += 1;
                }
                let s: String = self.b[st..self.i].iter().collect();
                s.parse::<f64>().map(J::Num).map_err(|_| format!("bad number {s:?}"))
            }
            Some(c) => Err(format!("unexpected {c:?} at offset {}", self.i)),
        }
    }
    fn string(&mut self) -> Result<String, String> {
        self.expect('"')?;
        let mut s = String::new();
        loop {
            match self.peek() {
                None => return Err("unterminated string".into()),
                Some('"') => {
                    self.i += 1;
                    return Ok(s);
                }
                Some('\\') => {
                    self.i += 1;
                    match self.peek() {
                        Some('n') => s.push('\n'),
                        Some('t') => s.push('\t'),
                        Some('r') => s.push('\r'),
                        Some('b') => s.push('\u{8}'),
                        Some('f') => s.push('\u{c}'),
                        Some('/') => s.push('/'),
                        Some('\\') => s.push('\\'),
                        Some('"') => s.push('"'),
                        Some('u') => {
                            let h: String = self.b.get(self.i + 1..self.i + 5).ok_or("bad \\u")?.iter().collect();
                            let cp = u32::from_str_radix(&h, 16).map_err(|_| "bad \\u".to_string())?;
                            s.push(char::from_u32(cp).unwrap_or('?'));
                            self.i += 4;
                        }
                        _ => return Err("bad escape".into()),
                    }
                    self.i += 1;
                }
                Some(c) => {
                    s.push(c);
                    self.i += 1;
                }
            }
        }
    }
}
