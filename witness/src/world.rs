//! The recording "world": scripted children, value/drop ledger, waker table and event log.
//!
//! Everything lives in one thread-local `World`; scripted children and values carry only
//! plain integers so that even a buggy (mutated) combinator that duplicates or forgets
//! them cannot corrupt the harness's own memory.

use std::cell::RefCell;
use std::future::Future;
use std::panic::{catch_unwind, AssertUnwindSafe};
use std::pin::Pin;
use std::sync::Arc;
use std::task::{Context, Poll, Wake, Waker};

use futures_core::Stream;

pub const BAD: u32 = u32::MAX;
const MAGIC: u32 = 0x5ca1_ab1e;

// ---------------------------------------------------------------------------------------
// vocabulary
// ---------------------------------------------------------------------------------------

#[derive(Clone, Copy, Debug, PartialEq, Eq)]
pub enum Step {
    /// return Pending and wake the waker of this very poll from inside the poll
    WakeNow,
    /// return Pending, keep the waker; the driver fires it later (`Fire:k` or the finish phase)
    WakeLater,
    /// return Pending, keep the waker; it is fired only by an explicit `Fire:k` / `Stale:k`
    NoWake,
    /// return Pending, keep the waker, and wake sibling `j`'s most recent waker from inside this poll
    WakeSib(usize),
    /// future resolves (plain value)
    Ready,
    /// Result-valued future resolves to Ok / Err
    Ok,
    Err,
    /// stream yields an item
    Item,
    /// stream ends
    End,
    /// the child's poll panics (fault injection, C02)
    Panic,
}

impl Step {
    pub fn to_str(self) -> String {
        match self {
            Step::WakeNow => "WakeNow".into(),
            Step::WakeLater => "WakeLater".into(),
            Step::NoWake => "NoWake".into(),
            Step::WakeSib(j) => format!("WakeSib:{j}"),
            Step::Ready => "Ready".into(),
            Step::Ok => "Ok".into(),
            Step::Err => "Err".into(),
            Step::Item => "Item".into(),
            Step::End => "End".into(),
            Step::Panic => "Panic".into(),
        }
    }
    pub fn parse(s: &str) -> Result<Step, String> {
        Ok(match s {
            "WakeNow" | "PendingWakeNow" => Step::WakeNow,
            "WakeLater" | "PendingWakeLater" => Step::WakeLater,
            "NoWake" | "PendingNoWake" => Step::NoWake,
            "Ready" => Step::Ready,
            "Ok" => Step::Ok,
            "Err" => Step::Err,
            "Item" => Step::Item,
            "End" => Step::End,
            "Panic" => Step::Panic,
            _ => {
                if let Some(r) = s.strip_prefix("WakeSib:") {
                    Step::WakeSib(r.parse().map_err(|_| format!("bad step {s}"))?)
                } else {
                    return Err(format!("unknown step {s:?}"));
                }
            }
        })
    }
}

#[derive(Clone, Copy, Debug, PartialEq, Eq)]
pub enum Kind {
    Fut,
    FutR,
    Stream,
}

/// result of one child poll
#[derive(Clone, Copy, Debug, PartialEq, Eq)]
pub enum CRes {
    Pending,
    Ready(u32),
    Ok(u32),
    Err(u32),
    Item(u32),
    End,
    Panic,
    /// polled although it had already returned Ready / None (C03)
    AfterDone,
}

impl CRes {
    pub fn is_final(self) -> bool {
        matches!(self, CRes::Ready(_) | CRes::Ok(_) | CRes::Err(_) | CRes::End)
    }
    pub fn val(self) -> Option<u32> {
        match self {
            CRes::Ready(v) | CRes::Ok(v) | CRes::Err(v) | CRes::Item(v) => Some(v),
            _ => None,
        }
    }
}

/// structure-only view of a combinator output: value ids instead of values
#[derive(Clone, Debug, PartialEq, Eq)]
pub enum Shape {
    V(u32),
    L(Vec<Shape>),
    Ok(Box<Shape>),
    Err(Box<Shape>),
    /// (index-or-key, inner)
    Idx(usize, Box<Shape>),
    Unit,
}

impl Shape {
    pub fn ids(&self, out: &mut Vec<u32>) {
        match self {
            Shape::V(v) => out.push(*v),
            Shape::L(l) => l.iter().for_each(|s| s.ids(out)),
            Shape::Ok(s) | Shape::Err(s) | Shape::Idx(_, s) => s.ids(out),
            Shape::Unit => {}
        }
    }
    pub fn show(&self) -> String {
        match self {
            Shape::V(v) if *v == BAD => "GARBAGE".into(),
            Shape::V(v) => format!("v{v}"),
            Shape::L(l) => format!("[{}]", l.iter().map(|s| s.show()).collect::<Vec<_>>().join(",")),
            Shape::Ok(s) => format!("Ok({})", s.show()),
            Shape::Err(s) => format!("Err({})", s.show()),
            Shape::Idx(i, s) => format!("({i},{})", s.show()),
            Shape::Unit => "()".into(),
        }
    }
}

/// result of one poll of the combinator under test
#[derive(Clone, Debug, PartialEq, Eq)]
pub enum PRes {
    Pending,
    Ready(Shape),
    Item(Shape),
    None,
    Panic(String),
}

impl PRes {
    pub fn show(&self) -> String {
        match self {
            PRes::Pending => "Pending".into(),
            PRes::Ready(s) => format!("Ready({})", s.show()),
            PRes::Item(s) => format!("Some({})", s.show()),
            PRes::None => "None".into(),
            PRes::Panic(m) => format!("panic({m})"),
        }
    }
}

#[derive(Clone, Copy, Debug, PartialEq, Eq)]
pub enum WakeKind {
    /// from inside the child's own poll
    SelfNow,
    /// from inside a sibling's poll
    Sibling,
    /// driver fired the waker of the child's most recent poll
    Stored,
    /// driver fired a waker handed out at an earlier poll
    Stale,
}

#[derive(Clone, Debug, PartialEq, Eq)]
pub enum GroupOp {
    Insert { child: usize, key: usize },
    Extend { children: Vec<usize> },
    Remove { key: usize, ret: bool },
    Reserve { n: usize },
    /// observation of the set view right after an operation / poll
    View { len: usize, is_empty: bool, cap: usize, contains: Vec<(usize, bool)> },
}

#[derive(Clone, Debug, PartialEq, Eq)]
pub enum Ev {
    /// combinator constructed (children exist from here on)
    Constructed,
    ParentPollStart { k: usize, spurious: bool },
    ParentPollEnd { k: usize, res: PRes },
    ChildPoll { c: usize, j: usize, wid: usize, res: CRes, in_parent: bool },
    /// waker `wid` (handed to child `c` at its poll `j`) is invoked
    Wake { c: usize, j: usize, wid: usize, kind: WakeKind },
    WakePanic { c: usize, msg: String },
    ParentWake { k: usize },
    ChildDrop { c: usize },
    ValDrop { v: u32 },
    DropStart,
    DropEnd { panic: Option<String> },
    /// driver released the outputs it was holding
    OutputsReleased,
    Group(GroupOp),
    /// closure of stage `stage` invoked for source item `item`; the future it returned is child `c`
    Closure { stage: String, item: usize, c: usize },
    /// a point outside any poll at which the executor could observe the system
    Quiescent,
    End,
}

#[derive(Clone, Debug)]
pub struct PollRec {
    pub t: usize,
    pub wid: usize,
    pub res: CRes,
    pub step: Step,
}

#[derive(Clone, Debug)]
pub struct Child {
    pub kind: Kind,
    pub label: String,
    pub script: Vec<Step>,
    pub pos: usize,
    pub polls: Vec<PollRec>,
    pub done: bool,
    pub polls_after_done: usize,
    pub drops: usize,
    pub produced: Vec<u32>,
    /// wakers handed out, one per poll (clone of cx.waker())
    pub wakers: Vec<Waker>,
    /// the poll index whose waker has already been fired by the finish phase / Fire
    pub fired_latest_at_poll: Option<usize>,
}

#[derive(Clone, Debug)]
pub struct ValRec {
    pub child: usize,
    pub seq: usize,
    pub drops: usize,
    pub tag: char, // 'r' ready, 'o' ok, 'e' err, 'i' item, 's' source (vec source item)
}

#[derive(Default)]
pub struct World {
    pub log: Vec<Ev>,
    pub children: Vec<Child>,
    pub vals: Vec<ValRec>,
    /// interned wakers (identity = `will_wake`)
    pub wakers: Vec<Waker>,
    /// for interned waker ids that are parent wakers: which one
    pub waker_parent: Vec<Option<usize>>,
    pub parent_wakers: usize,
    /// parent waker k has been invoked at least once (same information as a `ParentWake{k}` in the log)
    pub parent_woken: Vec<bool>,
    pub in_parent: bool,
    pub injected_panic: bool,
    pub garbage: Vec<String>,
    /// free-form counters for the concurrent-stream monitors
    pub live_closure_futs: Vec<(String, isize, isize)>, // (stage, live, max)
}

thread_local! {
    static W: RefCell<World> = RefCell::new(World::default());
    static LAST_PANIC: RefCell<String> = RefCell::new(String::new());
}

pub fn w<R>(f: impl FnOnce(&mut World) -> R) -> R {
    W.with(|c| f(&mut c.borrow_mut()))
}

/// Replace the world by a fresh one and return the old one.
pub fn take_world() -> World {
    W.with(|c| std::mem::take(&mut *c.borrow_mut()))
}

pub fn install_panic_hook() {
    std::panic::set_hook(Box::new(|info| {
        let msg = if let Some(s) = info.payload().downcast_ref::<&str>() {
            s.to_string()
        } else if let Some(s) = info.payload().downcast_ref::<String>() {
            s.clone()
        } else {
            "<non-string panic>".to_string()
        };
        let loc = info
            .location()
            .map(|l| format!(" at {}:{}", l.file(), l.line()))
            .unwrap_or_default();
        let _ = LAST_PANIC.try_with(|p| {
            if let Ok(mut p) = p.try_borrow_mut() {
                *p = format!("{msg}{loc}");
            }
        });
    }));
}

pub fn last_panic() -> String {
    LAST_PANIC.with(|p| p.borrow().clone())
}

/// run `f`, turning a panic into `Err(message)`
pub fn guarded<R>(f: impl FnOnce() -> R) -> Result<R, String> {
    match catch_unwind(AssertUnwindSafe(f)) {
        Ok(r) => Ok(r),
        Err(_) => Err(last_panic()),
    }
}

impl World {
    pub fn now(&self) -> usize {
        self.log.len()
    }
    pub fn ev(&mut self, e: Ev) {
        self.log.push(e);
    }
    pub fn intern(&mut self, wk: &Waker) -> usize {
        self.intern_hint(wk, None)
    }
    /// `intern` with a guess (the id this waker had the last time). Ids are unique per `will_wake` class
    /// (a waker is only added when no interned one `will_wake` it, and interned wakers are kept alive),
    /// so neither the hint nor the search order changes the result; they only keep scenarios with
    /// hundreds of children / polls linear.
    pub fn intern_hint(&mut self, wk: &Waker, hint: Option<usize>) -> usize {
        if let Some(h) = hint {
            if h < self.wakers.len() && self.wakers[h].will_wake(wk) {
                return h;
            }
        }
        for (i, x) in self.wakers.iter().enumerate().rev() {
            if x.will_wake(wk) {
                return i;
            }
        }
        self.wakers.push(wk.clone());
        self.waker_parent.push(None);
        self.wakers.len() - 1
    }
    pub fn add_child(&mut self, kind: Kind, label: String, script: Vec<Step>) -> usize {
        self.children.push(Child {
            kind,
            label,
            script,
            pos: 0,
            polls: Vec::new(),
            done: false,
            polls_after_done: 0,
            drops: 0,
            produced: Vec::new(),
            wakers: Vec::new(),
            fired_latest_at_poll: None,
        });
        self.children.len() - 1
    }
    pub fn new_val(&mut self, child: usize, tag: char) -> u32 {
        // number of values this child has produced so far
        let seq = if child < self.children.len() {
            self.children[child].produced.len()
        } else {
            self.vals.iter().filter(|v| v.child == child).count()
        };
        self.vals.push(ValRec { child, seq, drops: 0, tag });
        let id = (self.vals.len() - 1) as u32;
        if child < self.children.len() {
            self.children[child].produced.push(id);
        }
        id
    }
    fn val_drop(&mut self, id: u32, magic: u32) {
        if magic != MAGIC || (id as usize) >= self.vals.len() {
            self.garbage
                .push(format!("drop of a value that no child produced (raw id {id:#x})"));
            return;
        }
        self.vals[id as usize].drops += 1;
        self.log.push(Ev::ValDrop { v: id });
    }
    fn child_drop(&mut self, idx: usize, magic: u32) {
        if magic != MAGIC || idx >= self.children.len() {
            self.garbage
                .push(format!("drop of a child object that was never created (raw index {idx:#x})"));
            return;
        }
        self.children[idx].drops += 1;
        self.log.push(Ev::ChildDrop { c: idx });
    }
    fn parent_wake(&mut self, k: usize) {
        if let Some(f) = self.parent_woken.get_mut(k) {
            *f = true;
        }
        self.ev(Ev::ParentWake { k });
    }
    pub fn new_parent_waker(&mut self) -> (usize, Waker) {
        let k = self.parent_wakers;
        self.parent_wakers += 1;
        let wk = Waker::from(Arc::new(PW { k }));
        let wid = self.intern(&wk);
        self.waker_parent[wid] = Some(k);
        self.parent_woken.push(false);
        (k, wk)
    }
}

// ---------------------------------------------------------------------------------------
// parent wakers
// ---------------------------------------------------------------------------------------

struct PW {
    k: usize,
}

impl Wake for PW {
    fn wake(self: Arc<Self>) {
        let k = self.k;
        w(|w| w.parent_wake(k));
    }
    fn wake_by_ref(self: &Arc<Self>) {
        let k = self.k;
        w(|w| w.parent_wake(k));
    }
}

// ---------------------------------------------------------------------------------------
// values
// ---------------------------------------------------------------------------------------

/// A produced value. Identity is its ledger id; dropping it is recorded.
#[derive(Debug)]
pub struct Val {
    id: u32,
    magic: u32,
}

impl Val {
    pub fn from_id(id: u32) -> Val {
        Val { id, magic: MAGIC }
    }
    /// create a value that is not produced by a scripted poll (e.g. an item of a Vec source)
    pub fn fresh(child: usize, tag: char) -> Val {
        let id = w(|w| w.new_val(child, tag));
        Val::from_id(id)
    }
    /// ledger id, or BAD if this is not a value the harness created (uninitialised memory etc.)
    pub fn snap(&self) -> u32 {
        if self.magic != MAGIC {
            return BAD;
        }
        let n = w(|w| w.vals.len());
        if (self.id as usize) < n {
            self.id
        } else {
            BAD
        }
    }
}

impl Drop for Val {
    fn drop(&mut self) {
        let (id, magic) = (self.id, self.magic);
        let _ = W.try_with(|c| {
            if let Ok(mut w) = c.try_borrow_mut() {
                w.val_drop(id, magic);
            }
        });
    }
}

// ---------------------------------------------------------------------------------------
// scripted children
// ---------------------------------------------------------------------------------------

/// Advance child `idx` by one poll. Performs the step's wake-ups (outside of any world borrow).
pub fn child_poll(idx: usize, cx: &mut Context<'_>) -> CRes {
    let wk = cx.waker().clone();
    enum Act {
        Nothing,
        WakeSelf { j: usize, wid: usize },
        WakeSib { sib: usize, j: usize, wid: usize, wk: Waker },
        Panic,
    }
    let (res, act) = w(|w| {
        if idx >= w.children.len() {
            w.garbage.push(format!("poll of a child object that was never created (raw index {idx:#x})"));
            return (CRes::AfterDone, Act::Nothing);
        }
        let hint = w.children[idx].polls.last().map(|p| p.wid);
        let wid = w.intern_hint(&wk, hint);
        let t = w.now();
        let in_parent = w.in_parent;
        let j = w.children[idx].polls.len();
        if w.children[idx].done {
            let c = &mut w.children[idx];
            c.polls_after_done += 1;
            c.polls.push(PollRec { t, wid, res: CRes::AfterDone, step: Step::NoWake });
            c.wakers.push(wk.clone());
            w.ev(Ev::ChildPoll { c: idx, j, wid, res: CRes::AfterDone, in_parent });
            return (CRes::AfterDone, Act::Nothing);
        }
        let kind = w.children[idx].kind;
        let step = {
            let c = &mut w.children[idx];
            if c.pos < c.script.len() {
                let s = c.script[c.pos];
                c.pos += 1;
                s
            } else {
                Step::NoWake
            }
        };
        // normalise the step for the child's kind
        let (res, act) = match (step, kind) {
            (Step::WakeNow, _) => (CRes::Pending, Act::WakeSelf { j, wid }),
            (Step::WakeLater, _) | (Step::NoWake, _) => (CRes::Pending, Act::Nothing),
            (Step::WakeSib(s), _) => {
                let a = if s < w.children.len() && s != idx && !w.children[s].wakers.is_empty() {
                    let sj = w.children[s].wakers.len() - 1;
                    let swk = w.children[s].wakers[sj].clone();
                    let swid = w.intern_hint(&swk, w.children[s].polls.get(sj).map(|p| p.wid));
                    Act::WakeSib { sib: s, j: sj, wid: swid, wk: swk }
                } else {
                    Act::Nothing
                };
                (CRes::Pending, a)
            }
            (Step::Panic, _) => (CRes::Panic, Act::Panic),
            (Step::End, Kind::Stream) => (CRes::End, Act::Nothing),
            // "End" for a future means: never completes
            (Step::End, _) => (CRes::Pending, Act::Nothing),
            (Step::Err, Kind::FutR) => (CRes::Err(w.new_val(idx, 'e')), Act::Nothing),
            (_, Kind::FutR) => (CRes::Ok(w.new_val(idx, 'o')), Act::Nothing),
            (_, Kind::Fut) => (CRes::Ready(w.new_val(idx, 'r')), Act::Nothing),
            (_, Kind::Stream) => (CRes::Item(w.new_val(idx, 'i')), Act::Nothing),
        };
        let c = &mut w.children[idx];
        c.polls.push(PollRec { t, wid, res, step });
        c.wakers.push(wk.clone());
        if res.is_final() {
            c.done = true;
        }
        w.ev(Ev::ChildPoll { c: idx, j, wid, res, in_parent });
        if matches!(act, Act::Panic) {
            w.injected_panic = true;
        }
        (res, act)
    });
    match act {
        Act::Nothing => {}
        Act::WakeSelf { j, wid } => {
            w(|w| w.ev(Ev::Wake { c: idx, j, wid, kind: WakeKind::SelfNow }));
            if let Err(msg) = guarded(|| wk.wake_by_ref()) {
                w(|w| w.ev(Ev::WakePanic { c: idx, msg }));
            }
        }
        Act::WakeSib { sib, j, wid, wk: swk } => {
            w(|w| {
                w.ev(Ev::Wake { c: sib, j, wid, kind: WakeKind::Sibling });
                w.children[sib].fired_latest_at_poll = Some(j);
            });
            if let Err(msg) = guarded(|| swk.wake_by_ref()) {
                w(|w| w.ev(Ev::WakePanic { c: sib, msg }));
            }
        }
        Act::Panic => panic!("injected child panic (child {idx})"),
    }
    res
}

fn register(kind: Kind, label: &str, script: &[Step]) -> usize {
    w(|w| w.add_child(kind, label.to_string(), script.to_vec()))
}

fn drop_child(idx: usize, magic: u32) {
    let _ = W.try_with(|c| {
        if let Ok(mut w) = c.try_borrow_mut() {
            w.child_drop(idx, magic);
        }
    });
}

/// scripted future with a plain output
#[derive(Debug)]
pub struct SFut {
    idx: usize,
    magic: u32,
}

impl SFut {
    pub fn new(label: &str, script: &[Step]) -> SFut {
        SFut { idx: register(Kind::Fut, label, script), magic: MAGIC }
    }
    pub fn idx(&self) -> usize {
        self.idx
    }
}

impl Future for SFut {
    type Output = Val;
    fn poll(self: Pin<&mut Self>, cx: &mut Context<'_>) -> Poll<Val> {
        match child_poll(self.idx, cx) {
            CRes::Ready(v) | CRes::Ok(v) | CRes::Err(v) | CRes::Item(v) => Poll::Ready(Val::from_id(v)),
            _ => Poll::Pending,
        }
    }
}

impl Drop for SFut {
    fn drop(&mut self) {
        drop_child(self.idx, self.magic);
    }
}

/// scripted future with a `Result` output
#[derive(Debug)]
pub struct SFutR {
    idx: usize,
    magic: u32,
}

impl SFutR {
    pub fn new(label: &str, script: &[Step]) -> SFutR {
        SFutR { idx: register(Kind::FutR, label, script), magic: MAGIC }
    }
}

impl Future for SFutR {
    type Output = Result<Val, Val>;
    fn poll(self: Pin<&mut Self>, cx: &mut Context<'_>) -> Poll<Self::Output> {
        match child_poll(self.idx, cx) {
            CRes::Ok(v) | CRes::Ready(v) | CRes::Item(v) => Poll::Ready(Ok(Val::from_id(v))),
            CRes::Err(v) => Poll::Ready(Err(Val::from_id(v))),
            _ => Poll::Pending,
        }
    }
}

impl Drop for SFutR {
    fn drop(&mut self) {
        drop_child(self.idx, self.magic);
    }
}

/// scripted stream
#[derive(Debug)]
pub struct SStream {
    idx: usize,
    magic: u32,
}

impl SStream {
    pub fn new(label: &str, script: &[Step]) -> SStream {
        SStream { idx: register(Kind::Stream, label, script), magic: MAGIC }
    }
    pub fn idx(&self) -> usize {
        self.idx
    }
}

impl Stream for SStream {
    type Item = Val;
    fn poll_next(self: Pin<&mut Self>, cx: &mut Context<'_>) -> Poll<Option<Val>> {
        match child_poll(self.idx, cx) {
            CRes::Item(v) | CRes::Ready(v) | CRes::Ok(v) | CRes::Err(v) => Poll::Ready(Some(Val::from_id(v))),
            CRes::End | CRes::AfterDone => Poll::Ready(None),
            _ => Poll::Pending,
        }
    }
    /// Exact: the number of items the script will still deliver.  A stream may report that, and "no items left" is NOT
    /// "has ended" -- the script may still return Pending before its End step (a combinator that skips an input because its
    /// upper bound is 0 polls its successor too early).
    fn size_hint(&self) -> (usize, Option<usize>) {
        let n = w(|w| {
            w.children
                .get(self.idx)
                .map(|c| c.script[c.pos.min(c.script.len())..].iter().filter(|s| matches!(s, Step::Item)).count())
                .unwrap_or(0)
        });
        (n, Some(n))
    }
}

impl Drop for SStream {
    fn drop(&mut self) {
        drop_child(self.idx, self.magic);
    }
}

// ---------------------------------------------------------------------------------------
// driver-side waker firing
// ---------------------------------------------------------------------------------------

/// Fire the waker handed to child `c` at its most recent poll. Returns false if there is none.
pub fn fire_latest(c: usize) -> bool {
    let pick = w(|w| {
        let ch = w.children.get(c)?;
        if ch.wakers.is_empty() {
            return None;
        }
        let j = ch.wakers.len() - 1;
        let wk = ch.wakers[j].clone();
        let hint = ch.polls.get(j).map(|p| p.wid);
        let wid = w.intern_hint(&wk, hint);
        w.children[c].fired_latest_at_poll = Some(j);
        w.ev(Ev::Wake { c, j, wid, kind: WakeKind::Stored });
        Some(wk)
    });
    match pick {
        None => false,
        Some(wk) => {
            if let Err(msg) = guarded(|| wk.wake_by_ref()) {
                w(|w| w.ev(Ev::WakePanic { c, msg }));
            }
            true
        }
    }
}

/// Fire the waker handed to child `c` at its *first* poll, provided that poll is not its most
/// recent one or the child is finished / dropped (i.e. the waker is stale). Returns false otherwise.
pub fn fire_stale(c: usize) -> bool {
    let pick = w(|w| {
        let ch = w.children.get(c)?;
        if ch.wakers.is_empty() {
            return None;
        }
        let stale = ch.wakers.len() >= 2 || ch.done || ch.drops > 0;
        if !stale {
            return None;
        }
        let wk = ch.wakers[0].clone();
        let hint = ch.polls.first().map(|p| p.wid);
        let wid = w.intern_hint(&wk, hint);
        w.ev(Ev::Wake { c, j: 0, wid, kind: WakeKind::Stale });
        Some(wk)
    });
    match pick {
        None => false,
        Some(wk) => {
            if let Err(msg) = guarded(|| wk.wake_by_ref()) {
                w(|w| w.ev(Ev::WakePanic { c, msg }));
            }
            true
        }
    }
}
