//! Scenario data type, its JSON form, and the seeded scenario generator.

use std::collections::BTreeMap;

use crate::json::J;
use crate::world::Step;

#[derive(Clone, Debug, PartialEq, Eq)]
pub enum Action {
    /// wake-only executor step: poll only if a poll is due (never polled, latest parent waker
    /// invoked, last poll yielded an item, or a group was mutated since the last poll)
    Poll,
    /// unconditional poll (spurious wake-up of the task)
    Spurious,
    /// fire the waker child k received at its most recent poll
    Fire(usize),
    /// fire the waker child k received at its first poll, if that is a stale one
    Stale(usize),
    /// drop the combinator now
    Drop,
    // group operations
    Insert,
    Extend(usize),
    Remove(usize),
    Reserve(usize),
}

impl Action {
    pub fn to_str(&self) -> String {
        match self {
            Action::Poll => "Poll".into(),
            Action::Spurious => "Spurious".into(),
            Action::Fire(k) => format!("Fire:{k}"),
            Action::Stale(k) => format!("Stale:{k}"),
            Action::Drop => "Drop".into(),
            Action::Insert => "Insert".into(),
            Action::Extend(n) => format!("Extend:{n}"),
            Action::Remove(j) => format!("Remove:{j}"),
            Action::Reserve(n) => format!("Reserve:{n}"),
        }
    }
    pub fn parse(s: &str) -> Result<Action, String> {
        let (head, arg) = match s.split_once(':') {
            Some((h, a)) => (h, Some(a.parse::<usize>().map_err(|_| format!("bad action {s:?}"))?)),
            None => (s, None),
        };
        let need = |a: Option<usize>| a.ok_or_else(|| format!("action {s:?} needs an argument"));
        Ok(match head {
            "Poll" | "PollParent" => Action::Poll,
            "Spurious" | "SpuriousPoll" => Action::Spurious,
            "Fire" | "FireStored" => Action::Fire(need(arg)?),
            "Stale" | "FireStale" => Action::Stale(need(arg)?),
            "Drop" | "DropCombinator" => Action::Drop,
            "Insert" => Action::Insert,
            "Extend" => Action::Extend(need(arg)?),
            "Remove" => Action::Remove(need(arg)?),
            "Reserve" => Action::Reserve(need(arg)?),
            _ => return Err(format!("unknown action {s:?}")),
        })
    }
}

#[derive(Clone, Debug, PartialEq, Eq)]
pub enum Adapter {
    Map,
    Enumerate,
    Take(usize),
    /// 0 = `limit(None)`
    Limit(usize),
}

impl Adapter {
    pub fn to_str(&self) -> String {
        match self {
            Adapter::Map => "map".into(),
            Adapter::Enumerate => "enumerate".into(),
            Adapter::Take(n) => format!("take:{n}"),
            Adapter::Limit(n) => format!("limit:{n}"),
        }
    }
    pub fn parse(s: &str) -> Result<Adapter, String> {
        let num = |a: &str| a.parse::<usize>().map_err(|_| format!("bad adapter {s:?}"));
        Ok(match s.split_once(':') {
            None if s == "map" => Adapter::Map,
            None if s == "enumerate" => Adapter::Enumerate,
            Some(("take", a)) => Adapter::Take(num(a)?),
            Some(("limit", a)) => Adapter::Limit(num(a)?),
            _ => return Err(format!("unknown adapter {s:?}")),
        })
    }
}

#[derive(Clone, Debug, PartialEq, Eq)]
pub struct CoSpec {
    /// "co" (scripted stream `.co()`, script = children[0]) or "vec" (`Vec::into_co_stream`)
    pub source: String,
    /// number of source items for the "vec" source
    pub len: usize,
    pub stack: Vec<Adapter>,
    /// collect | for_each | try_for_each | collect_result
    pub terminal: String,
    /// scripts of the per-item futures, key "<stage>:<item index>"; stage = "m<i>" (i-th adapter of the
    /// stack, a map), "t" (terminal closure), "r" (result-producing map of collect_result).
    /// Missing entries mean an immediately ready future.
    pub work: BTreeMap<String, Vec<Step>>,
}

#[derive(Clone, Debug, PartialEq, Eq)]
pub struct Scenario {
    pub family: String,
    pub container: String,
    pub children: Vec<Vec<Step>>,
    pub schedule: Vec<Action>,
    pub finish: bool,
    /// finish phase fires the highest-index outstanding waker first (default: lowest)
    pub fire_hi: bool,
    pub keyed: bool,
    pub cap: usize,
    /// wait_until: inner is a stream
    pub stream: bool,
    pub co: Option<CoSpec>,
}

fn steps_json(s: &[Step]) -> J {
    J::Arr(s.iter().map(|x| J::Str(x.to_str())).collect())
}

fn steps_parse(j: &J) -> Result<Vec<Step>, String> {
    j.as_arr()
        .ok_or("script must be an array")?
        .iter()
        .map(|x| Step::parse(x.as_str().ok_or("step must be a string")?))
        .collect()
}

impl Scenario {
    pub fn to_json(&self) -> J {
        let mut m: Vec<(&str, J)> = vec![
            ("family", J::s(&self.family)),
            ("container", J::s(&self.container)),
            ("children", J::Arr(self.children.iter().map(|c| steps_json(c)).collect())),
            ("schedule", J::Arr(self.schedule.iter().map(|a| J::Str(a.to_str())).collect())),
            ("finish", J::Bool(self.finish)),
        ];
        if self.fire_hi {
            m.push(("fire_hi", J::Bool(true)));
        }
        if self.family.ends_with("_group") {
            m.push(("keyed", J::Bool(self.keyed)));
            m.push(("cap", J::n(self.cap)));
        }
        if self.family == "wait_until" {
            m.push(("stream", J::Bool(self.stream)));
        }
        if let Some(co) = &self.co {
            m.push((
                "co",
                J::obj(vec![
                    ("source", J::s(&co.source)),
                    ("len", J::n(co.len)),
                    ("stack", J::Arr(co.stack.iter().map(|a| J::Str(a.to_str())).collect())),
                    ("terminal", J::s(&co.terminal)),
                    ("work", J::Obj(co.work.iter().map(|(k, v)| (k.clone(), steps_json(v))).collect())),
                ]),
            ));
        }
        J::obj(m)
    }

    pub fn from_json(j: &J, family: Option<&str>, container: Option<&str>) -> Result<Scenario, String> {
        let fam = j.get("family").and_then(|x| x.as_str()).or(family).ok_or("scenario has no family")?;
        let cont = j.get("container").and_then(|x| x.as_str()).or(container).ok_or("scenario has no container")?;
        let children = match j.get("children") {
            Some(a) => a
                .as_arr()
                .ok_or("children must be an array")?
                .iter()
                .map(steps_parse)
                .collect::<Result<Vec<_>, _>>()?,
            None => vec![],
        };
        let schedule = match j.get("schedule") {
            Some(a) => a
                .as_arr()
                .ok_or("schedule must be an array")?
                .iter()
                .map(|x| Action::parse(x.as_str().ok_or("action must be a string")?))
                .collect::<Result<Vec<_>, _>>()?,
            None => vec![],
        };
        let co = match j.get("co") {
            None | Some(J::Null) => None,
            Some(c) => {
                let mut work = BTreeMap::new();
                if let Some(J::Obj(m)) = c.get("work") {
                    for (k, v) in m {
                        work.insert(k.clone(), steps_parse(v)?);
                    }
                }
                Some(CoSpec {
                    source: c.get("source").and_then(|x| x.as_str()).unwrap_or("vec").to_string(),
                    len: c.get("len").and_then(|x| x.as_usize()).unwrap_or(0),
                    stack: match c.get("stack") {
                        Some(a) => a
                            .as_arr()
                            .ok_or("stack must be an array")?
                            .iter()
                            .map(|x| Adapter::parse(x.as_str().ok_or("adapter must be a string")?))
                            .collect::<Result<Vec<_>, _>>()?,
                        None => vec![],
                    },
                    terminal: c.get("terminal").and_then(|x| x.as_str()).unwrap_or("collect").to_string(),
                    work,
                })
            }
        };
        Ok(Scenario {
            family: fam.to_string(),
            container: cont.to_string(),
            children,
            schedule,
            finish: j.get("finish").and_then(|x| x.as_bool()).unwrap_or(true),
            fire_hi: j.get("fire_hi").and_then(|x| x.as_bool()).unwrap_or(false),
            keyed: j.get("keyed").and_then(|x| x.as_bool()).unwrap_or(false),
            cap: j.get("cap").and_then(|x| x.as_usize()).unwrap_or(0),
            stream: j.get("stream").and_then(|x| x.as_bool()).unwrap_or(false),
            co,
        })
    }
}

// ---------------------------------------------------------------------------------------
// families / containers
// ---------------------------------------------------------------------------------------

pub const FAMILIES: &[&str] = &[
    "join", "try_join", "race", "race_ok", "merge", "zip", "chain", "future_group", "stream_group", "wait_until",
    "co_stream",
];

pub fn containers_of(family: &str) -> &'static [&'static str] {
    match family {
        "join" | "try_join" | "race" | "race_ok" | "merge" | "zip" | "chain" => &["array", "vec", "tuple"],
        "future_group" | "stream_group" => &["group"],
        "wait_until" | "co_stream" => &["na"],
        _ => &[],
    }
}

/// smallest / largest number of children the harness builds for (family, container)
pub fn arity_range(family: &str, container: &str) -> (usize, usize) {
    let lo = match (family, container) {
        // race over nothing and zip over nothing are outside the properties' quantifiers
        ("race", _) | ("zip", _) => 1,
        ("join", "tuple") | ("try_join", "tuple") | ("merge", "tuple") => 0,
        (_, "tuple") => 1,
        _ => 0,
    };
    (lo, 3)
}

pub fn result_valued(family: &str) -> bool {
    matches!(family, "try_join" | "race_ok")
}

/// which properties have a monitor for which family
pub fn props_of(family: &str) -> &'static [&'static str] {
    match family {
        "join" => &["C01", "C02", "C03", "C04", "C16", "C20"],
        "try_join" => &["C01", "C02", "C03", "C05", "C16", "C20"],
        "race" => &["C01", "C02", "C03", "C06", "C20"],
        "race_ok" => &["C01", "C02", "C03", "C07", "C20"],
        "merge" => &["C01", "C02", "C03", "C08", "C16", "C17", "C20"],
        "zip" => &["C01", "C02", "C03", "C09", "C16", "C20"],
        "chain" => &["C01", "C02", "C03", "C10"],
        "future_group" => &["C01", "C02", "C03", "C11", "C16", "C20"],
        "stream_group" => &["C01", "C02", "C03", "C12", "C16", "C20"],
        "wait_until" => &["C01", "C02", "C03", "C19"],
        "co_stream" => &["C02", "C03", "C13", "C14", "C15"],
        _ => &[],
    }
}

// ---------------------------------------------------------------------------------------
// generator
// ---------------------------------------------------------------------------------------

pub struct Rng(u64);

impl Rng {
    pub fn new(seed: u64, index: u64) -> Rng {
        let mut r = Rng(seed ^ index.wrapping_mul(0x9e37_79b9_7f4a_7c15) ^ 0xd1b5_4a32_d192_ed03);
        r.next();
        r.next();
        r
    }
    pub fn next(&mut self) -> u64 {
        self.0 = self.0.wrapping_add(0x9e37_79b9_7f4a_7c15);
        let mut z = self.0;
        z = (z ^ (z >> 30)).wrapping_mul(0xbf58_476d_1ce4_e5b9);
        z = (z ^ (z >> 27)).wrapping_mul(0x94d0_49bb_1331_11eb);
        z ^ (z >> 31)
    }
    pub fn below(&mut self, n: usize) -> usize {
        if n == 0 {
            0
        } else {
            (self.next() % n as u64) as usize
        }
    }
    pub fn chance(&mut self, percent: usize) -> bool {
        self.below(100) < percent
    }
    pub fn pick<T: Clone>(&mut self, xs: &[T]) -> T {
        xs[self.below(xs.len())].clone()
    }
}

pub struct GenOpts {
    pub prop: String,
    pub panics: bool,
    /// do not generate the shapes of the known defects D1 (merge of zero streams in array/Vec) and D2 (take(0))
    pub avoid_known: bool,
}

fn pending_step(r: &mut Rng, n_children: usize) -> Step {
    match r.below(100) {
        0..=34 => Step::WakeLater,
        35..=64 => Step::WakeNow,
        65..=87 => Step::NoWake,
        _ => {
            if n_children >= 2 {
                Step::WakeSib(r.below(n_children))
            } else {
                Step::WakeLater
            }
        }
    }
}

fn fut_script(r: &mut Rng, n: usize, result: bool, o: &GenOpts) -> Vec<Step> {
    let mut s = Vec::new();
    let p = r.pick(&[0, 0, 0, 1, 1, 1, 2, 2, 3]);
    for _ in 0..p {
        s.push(pending_step(r, n));
    }
    if o.panics && r.chance(12) {
        s.push(Step::Panic);
        return s;
    }
    if r.chance(10) {
        // never completes
        return s;
    }
    if result {
        s.push(if r.chance(45) { Step::Err } else { Step::Ok });
    } else {
        s.push(Step::Ready);
    }
    s
}

fn stream_script(r: &mut Rng, n: usize, max_items: usize, o: &GenOpts) -> Vec<Step> {
    let mut s = Vec::new();
    let items = r.below(max_items + 1);
    for _ in 0..items {
        let p = r.pick(&[0, 0, 0, 1, 1, 2]);
        for _ in 0..p {
            s.push(pending_step(r, n));
        }
        if o.panics && r.chance(6) {
            s.push(Step::Panic);
            return s;
        }
        s.push(Step::Item);
    }
    let p = r.pick(&[0, 0, 1, 1, 2]);
    for _ in 0..p {
        s.push(pending_step(r, n));
    }
    if !r.chance(8) {
        s.push(Step::End);
    }
    s
}

fn plain_schedule(r: &mut Rng, n: usize, allow_drop: bool) -> Vec<Action> {
    let len = r.below(11);
    let mut v = Vec::new();
    let mut dropped = false;
    for _ in 0..len {
        let x = r.below(100);
        let k = r.below(n.max(1));
        let a = if dropped {
            // after the combinator is gone only wake-ups make sense
            if x < 60 {
                Action::Fire(k)
            } else {
                Action::Stale(k)
            }
        } else if x < 30 {
            Action::Poll
        } else if x < 52 {
            Action::Spurious
        } else if x < 80 {
            Action::Fire(k)
        } else if x < 93 {
            Action::Stale(k)
        } else if allow_drop {
            dropped = true;
            Action::Drop
        } else {
            Action::Poll
        };
        v.push(a);
    }
    v
}

// ---------------------------------------------------------------------------------------
// the "large" scenario class: sizes beyond the thresholds 22 / 32 / 64 / 128
// ---------------------------------------------------------------------------------------

/// about one scenario in `LARGE_ONE_IN` is a large one (decided by an Rng of its own, derived from the same
/// (seed, index), so the small scenarios at all other indices are exactly what they were before)
pub const LARGE_ONE_IN: usize = 25;
/// number of children of large join/try_join/race/race_ok/merge/zip/chain scenarios over a Vec
pub const LARGE_VEC: &[usize] = &[23, 33, 40, 65, 70, 129, 200];
/// ... over an array (`build.rs::with_array!` instantiates exactly these two beyond 0..=3)
pub const LARGE_ARRAY: &[usize] = &[33, 65];
/// number of source items of large concurrent-stream scenarios
pub const LARGE_CO: &[usize] = &[23, 65, 129, 130, 260, 300];
/// number of members inserted by a large group scenario: LARGE_GROUP.0 ..= LARGE_GROUP.1
pub const LARGE_GROUP: (usize, usize) = (14, 45);
const LARGE_SALT: u64 = 0x6c61_7267_655f_7363;

/// does (family, container) have a large scenario class?
pub fn has_large(family: &str, container: &str) -> bool {
    match family {
        "join" | "try_join" | "race" | "race_ok" | "merge" | "zip" | "chain" => matches!(container, "vec" | "array"),
        "future_group" | "stream_group" | "co_stream" => true,
        _ => false,
    }
}

/// an index in 0..n that is often high: uniform, the last one, in the last quarter, or at / just beyond one of
/// the thresholds 22, 32, 64, 128
fn hi_index(r: &mut Rng, n: usize) -> usize {
    if n <= 1 {
        return 0;
    }
    match r.below(5) {
        0 => r.below(n),
        1 => n - 1,
        2 => n - 1 - r.below((n / 4).max(1)),
        _ => {
            let ts: Vec<usize> = [22usize, 32, 64, 128].iter().copied().filter(|t| *t < n).collect();
            if ts.is_empty() {
                r.below(n)
            } else {
                let t = r.pick(&ts);
                if r.chance(60) {
                    t + r.below((n - t).min(3))
                } else {
                    t + r.below(n - t)
                }
            }
        }
    }
}

/// how the pending steps of one large scenario look
#[derive(Clone, Copy)]
struct Pend {
    /// number of children (for `WakeSib`)
    n: usize,
    /// `NoWake` steps (a child that stays pending unless the schedule fires its waker) are used in this scenario;
    /// decided once per scenario: with hundreds of children a per-step chance would stall nearly every scenario
    nowake: bool,
}

/// one pending step of a large scenario: one that wakes now or later (or, in some scenarios, not at all)
fn large_pending(r: &mut Rng, p: Pend) -> Step {
    match r.below(100) {
        0..=47 => Step::WakeLater,
        48..=89 => Step::WakeNow,
        90..=95 if p.nowake => Step::NoWake,
        90..=95 => Step::WakeLater,
        _ => Step::WakeSib(hi_index(r, p.n)),
    }
}

/// future: resolves after 0 (mostly) or 1 pending steps; `pend` = chance of the pending step in percent
fn large_fut(r: &mut Rng, p: Pend, pend: usize, last: Step) -> Vec<Step> {
    if r.chance(pend) {
        vec![large_pending(r, p), last]
    } else {
        vec![last]
    }
}

/// stream: `items` items then End, each with chance `pend` preceded by one pending step
fn large_stream(r: &mut Rng, p: Pend, items: usize, pend: usize) -> Vec<Step> {
    let mut s = Vec::new();
    for _ in 0..items {
        if r.chance(pend) {
            s.push(large_pending(r, p));
        }
        s.push(Step::Item);
    }
    if r.chance(pend) {
        s.push(large_pending(r, p));
    }
    s.push(Step::End);
    s
}

/// a few driver actions for a combinator with `n` children (wake-ups aim at high indices)
fn large_schedule(r: &mut Rng, n: usize, allow_drop: bool, early_drop: bool) -> Vec<Action> {
    let len = r.below(7);
    let mut v: Vec<Action> = Vec::new();
    let mut dropped = false;
    for _ in 0..len {
        let x = r.below(100);
        let a = if dropped {
            if x < 60 {
                Action::Fire(hi_index(r, n))
            } else {
                Action::Stale(hi_index(r, n))
            }
        } else if x < 36 {
            Action::Poll
        } else if x < 58 {
            Action::Spurious
        } else if x < 84 {
            Action::Fire(hi_index(r, n))
        } else if x < 94 {
            Action::Stale(hi_index(r, n))
        } else if allow_drop && (early_drop || v.iter().any(|a| matches!(a, Action::Poll | Action::Spurious))) {
            // (dropping a large combinator that was never polled is left to the C02 runs)
            dropped = true;
            Action::Drop
        } else {
            Action::Poll
        };
        v.push(a);
    }
    v
}

/// `k` distinct often-high indices in 0..n
fn hi_set(r: &mut Rng, n: usize, k: usize) -> Vec<usize> {
    let mut v: Vec<usize> = Vec::new();
    let mut tries = 0;
    while v.len() < k.min(n) && tries < 20 * k + 20 {
        tries += 1;
        let i = hi_index(r, n);
        if !v.contains(&i) {
            v.push(i);
        }
    }
    v
}

fn generate_large(family: &str, container: &str, r: &mut Rng, o: &GenOpts) -> Scenario {
    let mut sc = Scenario {
        family: family.to_string(),
        container: container.to_string(),
        children: vec![],
        schedule: vec![],
        finish: true,
        fire_hi: r.chance(50),
        keyed: false,
        cap: 0,
        stream: false,
        co: None,
    };
    let sizes = if container == "array" { LARGE_ARRAY } else { LARGE_VEC };
    let nowake = r.chance(15);
    let early_drop = o.prop == "C02";
    match family {
        "join" | "try_join" => {
            let n = r.pick(sizes);
            let pd = Pend { n, nowake };
            let fin = if family == "join" { Step::Ready } else { Step::Ok };
            match r.below(10) {
                // every child resolves at its first poll
                0..=3 => sc.children = vec![vec![fin]; n],
                // some children need one more poll
                4..=7 => {
                    for _ in 0..n {
                        sc.children.push(large_fut(r, pd, 15, fin));
                    }
                }
                // only a few children, at high indices, need one more poll
                _ => {
                    sc.children = vec![vec![fin]; n];
                    let k = 1 + r.below(3);
                    for i in hi_set(r, n, k) {
                        sc.children[i] = vec![large_pending(r, pd), fin];
                    }
                }
            }
            if family == "try_join" && r.chance(40) {
                let k = 1 + r.below(3);
                for i in hi_set(r, n, k) {
                    let l = sc.children[i].len();
                    sc.children[i][l - 1] = Step::Err;
                }
            }
            if o.panics && r.chance(25) {
                let i = hi_index(r, n);
                let l = sc.children[i].len();
                sc.children[i][l - 1] = Step::Panic;
            }
            sc.schedule = large_schedule(r, n, true, early_drop);
        }
        "race" | "race_ok" => {
            let n = r.pick(sizes);
            let pd = Pend { n, nowake };
            let ok = family == "race_ok";
            let win = if ok { Step::Ok } else { Step::Ready };
            let mode = r.below(10);
            if mode <= 6 {
                // exactly one child completes (successfully); all others stay pending forever (race_ok: or fail)
                let w = hi_index(r, n);
                let others_fail = ok && r.chance(60);
                for i in 0..n {
                    let s = if i == w {
                        match r.below(10) {
                            0..=4 => vec![win],
                            5..=6 => vec![Step::WakeNow, win],
                            _ => vec![Step::WakeLater, win],
                        }
                    } else if others_fail && r.chance(55) {
                        large_fut(r, pd, 12, Step::Err)
                    } else {
                        match r.below(20) {
                            0..=16 => vec![],
                            17..=18 => vec![Step::WakeLater],
                            _ => vec![Step::WakeNow],
                        }
                    };
                    sc.children.push(s);
                }
            } else if ok && mode <= 8 {
                // every child fails: the aggregate error holds n errors
                for _ in 0..n {
                    sc.children.push(large_fut(r, pd, 12, Step::Err));
                }
            } else {
                for _ in 0..n {
                    let s = match r.below(10) {
                        0..=5 => vec![],
                        6..=7 if ok => large_fut(r, pd, 20, Step::Err),
                        _ => large_fut(r, pd, 40, win),
                    };
                    sc.children.push(s);
                }
            }
            if o.panics && r.chance(20) {
                let i = hi_index(r, n);
                sc.children[i] = vec![Step::Panic];
            }
            sc.schedule = large_schedule(r, n, true, early_drop);
        }
        "merge" | "zip" | "chain" => {
            let n = r.pick(sizes);
            let pd = Pend { n, nowake };
            let mode = r.below(10);
            if family == "merge" && o.prop == "C17" {
                // one input that has several items, each available whenever it is polled; the others mostly
                // have one item each (also always available)
                let p = hi_index(r, n);
                for i in 0..n {
                    if i == p {
                        let m = 3 + r.below(4);
                        let mut s = vec![Step::Item; m];
                        s.push(Step::End);
                        sc.children.push(s);
                    } else {
                        let items = r.pick(&[0, 1, 1, 1, 2]);
                        sc.children.push(large_stream(r, pd, items, 8));
                    }
                }
            } else if family == "zip" {
                let rows = 1 + r.below(2);
                for _ in 0..n {
                    sc.children.push(large_stream(r, pd, rows, if mode >= 6 { 6 } else { 0 }));
                }
                match mode {
                    // a few inputs at high indices are late
                    2..=3 => {
                        let k = 1 + r.below(2);
                        for i in hi_set(r, n, k) {
                            sc.children[i].insert(0, large_pending(r, pd));
                        }
                    }
                    // one input ends one row early
                    4 => {
                        let i = hi_index(r, n);
                        sc.children[i] = large_stream(r, pd, rows - 1, 0);
                    }
                    // one input never produces anything
                    5 => {
                        let i = hi_index(r, n);
                        sc.children[i] = vec![];
                    }
                    _ => {}
                }
            } else if mode <= 2 {
                // every input: one or two items, then the end
                for _ in 0..n {
                    let items = r.pick(&[1, 1, 1, 2]);
                    sc.children.push(large_stream(r, pd, items, 0));
                }
            } else if mode <= 5 {
                // items only from a few inputs at high indices; all the others are empty (or silent)
                let other: Vec<Step> = if r.chance(70) { vec![Step::End] } else { vec![] };
                sc.children = vec![other; n];
                let k = 1 + r.below(4);
                for i in hi_set(r, n, k) {
                    let items = 1 + r.below(3);
                    sc.children[i] = large_stream(r, pd, items, 25);
                }
            } else {
                for _ in 0..n {
                    let items = r.pick(&[0, 0, 1, 1, 1, 2]);
                    sc.children.push(large_stream(r, pd, items, 12));
                }
            }
            if o.panics && r.chance(20) {
                let i = hi_index(r, n);
                let l = sc.children[i].len();
                if l > 0 {
                    sc.children[i][l - 1] = Step::Panic;
                } else {
                    sc.children[i] = vec![Step::Panic];
                }
            }
            sc.schedule = large_schedule(r, n, o.prop != "C17", early_drop);
        }
        "future_group" | "stream_group" => {
            let is_f = family == "future_group";
            sc.keyed = r.chance(50);
            sc.cap = r.pick(&[0, 0, 0, 1, 3, 4, 13, 22, 23, 40]);
            let total = LARGE_GROUP.0 + r.below(LARGE_GROUP.1 - LARGE_GROUP.0 + 1);
            let mut inserted = 0usize;
            let mut keys = 0usize;
            if r.chance(30) {
                // reserve, then insert up to (and beyond) the reserved capacity
                sc.schedule.push(Action::Reserve(r.pick(&[total, total, total - 1, 14, 22, 23, 45])));
            }
            // the first batch often brings the group beyond 13 members before it is polled at all
            let mut batch = if r.chance(50) { LARGE_GROUP.0 + r.below(total - LARGE_GROUP.0 + 1) } else { 1 + r.below(5) };
            while inserted < total {
                let b = batch.min(total - inserted).max(1);
                if is_f && r.chance(10) {
                    sc.schedule.push(Action::Extend(b));
                } else {
                    for _ in 0..b {
                        sc.schedule.push(Action::Insert);
                    }
                    keys += b;
                }
                inserted += b;
                for _ in 0..r.below(4) {
                    let x = r.below(100);
                    sc.schedule.push(if x < 45 {
                        Action::Poll
                    } else if x < 60 {
                        Action::Spurious
                    } else if x < 78 {
                        Action::Fire(r.below(inserted))
                    } else if x < 83 {
                        Action::Stale(r.below(inserted))
                    } else if x < 95 && keys > 0 {
                        Action::Remove(r.below(keys))
                    } else {
                        Action::Reserve(r.below(6))
                    });
                }
                batch = r.pick(&[1, 2, 3, 4, 9, 13, 14, 27]);
            }
            for _ in 0..r.below(4) {
                sc.schedule.push(if r.chance(50) { Action::Poll } else { Action::Fire(hi_index(r, inserted)) });
            }
            let pd = Pend { n: inserted, nowake };
            for _ in 0..inserted {
                if is_f {
                    let mut s = large_fut(r, pd, 40, Step::Ready);
                    if o.panics && r.chance(2) {
                        let l = s.len();
                        s[l - 1] = Step::Panic;
                    }
                    sc.children.push(s);
                } else {
                    let items = 1 + r.below(2);
                    sc.children.push(large_stream(r, pd, items, 12));
                }
            }
        }
        "co_stream" => {
            let source = if r.chance(35) { "co" } else { "vec" };
            let len = r.pick(LARGE_CO);
            let mut stack = Vec::new();
            let depth = r.pick(&[0, 1, 1, 2, 2, 3]);
            let no_take = matches!(o.prop.as_str(), "C13" | "C14");
            for _ in 0..depth {
                stack.push(match if no_take { r.pick(&[0, 1, 3, 3]) } else { r.below(4) } {
                    0 => Adapter::Map,
                    1 => Adapter::Enumerate,
                    // mostly around the source length and the thresholds, sometimes small (never `take(0)`, the known D2)
                    2 => Adapter::Take(r.pick(&[len - 1, len, len + 1, 1000, 129, 128, 65, 5, 1])),
                    _ => Adapter::Limit(r.pick(&[0, 1, 1, 2, 3])),
                });
            }
            let terminal = match o.prop.as_str() {
                "C13" => "for_each",
                "C14" => {
                    if r.chance(65) {
                        "try_for_each"
                    } else {
                        "collect_result"
                    }
                }
                _ => r.pick(&["collect", "collect", "for_each", "try_for_each", "collect_result"]),
            }
            .to_string();
            if source == "co" {
                // `len` items; a handful of them arrive after one pending step
                let k = r.below(4);
                let late = hi_set(r, len, k);
                let mut s = Vec::new();
                for i in 0..len {
                    if late.contains(&i) {
                        s.push(large_pending(r, Pend { n: 1, nowake }));
                    }
                    s.push(Step::Item);
                }
                s.push(Step::End);
                sc.children.push(s);
            }
            let mut work = BTreeMap::new();
            let mut stages: Vec<(String, bool)> = stack
                .iter()
                .enumerate()
                .filter(|(_, a)| **a == Adapter::Map)
                .map(|(i, _)| (format!("m{i}"), false))
                .collect();
            match terminal.as_str() {
                "for_each" => stages.push(("t".into(), false)),
                "try_for_each" => stages.push(("t".into(), true)),
                "collect_result" => stages.push(("r".into(), true)),
                _ => {}
            }
            // all per-item futures are immediately ready, except a handful with one pending step (or an Err)
            for (st, fallible) in stages {
                let k = r.below(4);
                for item in hi_set(r, len, k) {
                    let last = if !fallible {
                        Step::Ready
                    } else if r.chance(35) {
                        Step::Err
                    } else {
                        Step::Ok
                    };
                    let s = if r.chance(75) {
                        vec![if r.chance(50) { Step::WakeNow } else { Step::WakeLater }, last]
                    } else {
                        vec![last]
                    };
                    work.insert(format!("{st}:{item}"), s);
                }
            }
            sc.co = Some(CoSpec { source: source.to_string(), len, stack, terminal, work });
            // children are created dynamically (source first, then closure futures in creation order)
            sc.schedule = large_schedule(r, 1 + len, true, early_drop);
        }
        _ => {}
    }
    sc
}

/// Produce the `index`-th scenario for (family, container). Deterministic in (seed, index).
pub fn generate(family: &str, container: &str, seed: u64, index: u64, o: &GenOpts) -> Scenario {
    if has_large(family, container) {
        let mut lr = Rng::new(seed ^ LARGE_SALT, index);
        if lr.below(LARGE_ONE_IN) == 0 {
            return generate_large(family, container, &mut lr, o);
        }
    }
    let mut r = Rng::new(seed, index);
    let mut sc = Scenario {
        family: family.to_string(),
        container: container.to_string(),
        children: vec![],
        schedule: vec![],
        finish: r.chance(75),
        fire_hi: r.chance(35),
        keyed: false,
        cap: 0,
        stream: false,
        co: None,
    };
    match family {
        "join" | "try_join" | "race" | "race_ok" => {
            let (lo, hi) = arity_range(family, container);
            let n = lo + r.below(hi - lo + 1);
            for _ in 0..n {
                sc.children.push(fut_script(&mut r, n, result_valued(family), o));
            }
            sc.schedule = plain_schedule(&mut r, n, true);
        }
        "merge" | "zip" | "chain" => {
            let (mut lo, hi) = arity_range(family, container);
            if o.avoid_known && family == "merge" && container != "tuple" {
                lo = 1;
            }
            let n = lo + r.below(hi - lo + 1);
            if o.prop == "C17" && n >= 1 {
                // one input that has an item whenever it is polled
                let p = r.below(n);
                // every 20th C17 scenario is LONG (all inputs always ready, 100..=150 items each): rotation state that only
                // misbehaves after hundreds of polls (a narrow counter wrapping at 256, say) is reached
                let long = index % 20 == 7 && n >= 2;
                for i in 0..n {
                    if long {
                        let m = 100 + r.below(51);
                        let mut s = vec![Step::Item; m];
                        s.push(Step::End);
                        sc.children.push(s);
                    } else if i == p {
                        let m = 5 + r.below(4);
                        let mut s = vec![Step::Item; m];
                        s.push(Step::End);
                        sc.children.push(s);
                    } else {
                        sc.children.push(stream_script(&mut r, n, 4, o));
                    }
                }
                sc.finish = true;
            } else {
                for _ in 0..n {
                    sc.children.push(stream_script(&mut r, n, 3, o));
                }
            }
            sc.schedule = plain_schedule(&mut r, n, o.prop != "C17");
        }
        "wait_until" => {
            sc.stream = r.chance(50);
            // deadline
            let mut d = Vec::new();
            for _ in 0..r.pick(&[0, 1, 1, 2, 3]) {
                d.push(pending_step(&mut r, 1));
            }
            if !r.chance(8) {
                d.push(Step::Ready);
            }
            sc.children.push(d);
            if sc.stream {
                sc.children.push(stream_script(&mut r, 1, 3, o));
            } else {
                sc.children.push(fut_script(&mut r, 1, false, o));
            }
            sc.schedule = plain_schedule(&mut r, 2, true);
        }
        "future_group" | "stream_group" => {
            let is_f = family == "future_group";
            sc.keyed = r.chance(50);
            sc.cap = r.pick(&[0, 0, 1, 2, 3]);
            let len = 2 + r.below(12);
            let mut inserted = 0usize;
            let mut keys = 0usize;
            let mut dropped = false;
            for _ in 0..len {
                let x = r.below(100);
                let a = if dropped {
                    if inserted == 0 {
                        continue;
                    }
                    if x < 60 {
                        Action::Fire(r.below(inserted))
                    } else {
                        Action::Stale(r.below(inserted))
                    }
                } else if x < 26 && inserted < 5 {
                    inserted += 1;
                    keys += 1;
                    Action::Insert
                } else if x < 30 && is_f && inserted < 4 {
                    let m = 1 + r.below(2);
                    inserted += m;
                    Action::Extend(m)
                } else if x < 50 {
                    Action::Poll
                } else if x < 62 {
                    Action::Spurious
                } else if x < 76 && inserted > 0 {
                    Action::Fire(r.below(inserted))
                } else if x < 83 && inserted > 0 {
                    Action::Stale(r.below(inserted))
                } else if x < 92 && keys > 0 {
                    Action::Remove(r.below(keys))
                } else if x < 97 {
                    Action::Reserve(r.below(5))
                } else {
                    dropped = true;
                    Action::Drop
                };
                sc.schedule.push(a);
            }
            for _ in 0..inserted {
                if is_f {
                    sc.children.push(fut_script(&mut r, inserted, false, o));
                } else {
                    sc.children.push(stream_script(&mut r, inserted, 3, o));
                }
            }
        }
        "co_stream" => {
            let source = if r.chance(55) { "co" } else { "vec" };
            let len = r.below(5);
            let mut stack = Vec::new();
            let depth = r.pick(&[0, 1, 1, 2, 2, 3]);
            let no_take = matches!(o.prop.as_str(), "C13" | "C14");
            for _ in 0..depth {
                stack.push(match if no_take { r.pick(&[0, 1, 3, 3]) } else { r.below(4) } {
                    0 => Adapter::Map,
                    1 => Adapter::Enumerate,
                    2 => Adapter::Take(if o.avoid_known { r.pick(&[1, 1, 2, 3, 5]) } else { r.pick(&[0, 1, 1, 2, 3, 5]) }),
                    _ => Adapter::Limit(r.pick(&[0, 1, 1, 2, 3])),
                });
            }
            let terminal = match o.prop.as_str() {
                "C13" => "for_each",
                "C14" => {
                    if r.chance(65) {
                        "try_for_each"
                    } else {
                        "collect_result"
                    }
                }
                _ => r.pick(&["collect", "collect", "for_each", "try_for_each", "collect_result"]),
            }
            .to_string();
            if source == "co" {
                // source stream script with exactly `len` items
                let mut s = Vec::new();
                for _ in 0..len {
                    for _ in 0..r.pick(&[0, 0, 0, 1, 1, 2]) {
                        s.push(pending_step(&mut r, 1));
                    }
                    s.push(Step::Item);
                }
                for _ in 0..r.pick(&[0, 0, 1]) {
                    s.push(pending_step(&mut r, 1));
                }
                if !r.chance(5) {
                    s.push(Step::End);
                }
                sc.children.push(s);
            }
            let mut work = BTreeMap::new();
            let mut stages: Vec<(String, bool)> = stack
                .iter()
                .enumerate()
                .filter(|(_, a)| **a == Adapter::Map)
                .map(|(i, _)| (format!("m{i}"), false))
                .collect();
            match terminal.as_str() {
                "for_each" => stages.push(("t".into(), false)),
                "try_for_each" => stages.push(("t".into(), true)),
                "collect_result" => stages.push(("r".into(), true)),
                _ => {}
            }
            for (st, fallible) in stages {
                for item in 0..len {
                    if r.chance(30) {
                        continue; // immediately ready
                    }
                    let mut s = Vec::new();
                    for _ in 0..r.pick(&[0, 1, 1, 2]) {
                        s.push(pending_step(&mut r, 1));
                    }
                    if r.chance(4) {
                        // never completes
                    } else if fallible {
                        s.push(if r.chance(30) { Step::Err } else { Step::Ok });
                    } else {
                        s.push(Step::Ready);
                    }
                    work.insert(format!("{st}:{item}"), s);
                }
            }
            sc.co = Some(CoSpec { source: source.to_string(), len, stack, terminal, work });
            // children are created dynamically: source (if co) first, then work futures
            sc.schedule = plain_schedule(&mut r, 1 + len * 2, true);
        }
        _ => {}
    }
    sc
}
