//! Concurrent-stream scenarios: source (`stream.co()` / `Vec::into_co_stream`) + adapter stack of
//! depth <= 3 drawn from {map, enumerate, take, limit} + terminal operation, with scripted
//! per-item futures. The terminal operation's future is the "parent" the driver polls.

use std::collections::BTreeMap;
use std::future::{Future, Ready};
use std::num::NonZeroUsize;
use std::pin::Pin;
use std::rc::Rc;
use std::task::{Context, Poll};

use futures_concurrency::concurrent_stream::{ConcurrentStream, Consumer, FromStream, IntoConcurrentStream};
use futures_concurrency::prelude::*;

use crate::build::Parent;
use crate::scenario::{Adapter, Scenario};
use crate::world::{child_poll, w, CRes, Ev, Kind, SStream, Shape, Step, Val};

pub const VEC_SOURCE: usize = usize::MAX - 1;

/// items flowing through the stack: a value, possibly wrapped by `enumerate` layers
pub trait Norm: Unpin + 'static {
    fn flat(&self) -> Shape;
    /// position of the underlying value in the source
    fn item(&self) -> usize;
}

impl Norm for Val {
    fn flat(&self) -> Shape {
        Shape::V(self.snap())
    }
    fn item(&self) -> usize {
        let id = self.snap();
        w(|w| w.vals.get(id as usize).map(|v| v.seq).unwrap_or(usize::MAX))
    }
}

impl<T: Norm> Norm for (usize, T) {
    fn flat(&self) -> Shape {
        Shape::Idx(self.0, Box::new(self.1.flat()))
    }
    fn item(&self) -> usize {
        self.1.item()
    }
}

// ---------------------------------------------------------------------------------------
// source
// ---------------------------------------------------------------------------------------

pub enum Src {
    Co(FromStream<SStream>),
    V(futures_concurrency::vec::IntoConcurrentStream<Val>),
}

impl ConcurrentStream for Src {
    type Item = Val;
    type Future = Ready<Val>;

    async fn drive<C>(self, consumer: C) -> C::Output
    where
        C: Consumer<Self::Item, Self::Future>,
    {
        match self {
            Src::Co(s) => s.drive(consumer).await,
            Src::V(v) => v.drive(consumer).await,
        }
    }

    fn concurrency_limit(&self) -> Option<NonZeroUsize> {
        match self {
            Src::Co(s) => s.concurrency_limit(),
            Src::V(v) => v.concurrency_limit(),
        }
    }

    fn size_hint(&self) -> (usize, Option<usize>) {
        match self {
            Src::Co(s) => s.size_hint(),
            Src::V(v) => v.size_hint(),
        }
    }
}

// ---------------------------------------------------------------------------------------
// scripted per-item futures
// ---------------------------------------------------------------------------------------

type Scripts = Rc<BTreeMap<String, Vec<Step>>>;

/// future returned by a closure: runs the script of (stage, item), then turns the payload into the output
pub struct Work<T, O> {
    idx: usize,
    stage: Rc<str>,
    payload: Option<T>,
    fin: fn(T, CRes) -> O,
}

impl<T: Unpin, O> Future for Work<T, O> {
    type Output = O;
    fn poll(self: Pin<&mut Self>, cx: &mut Context<'_>) -> Poll<O> {
        let this = self.get_mut();
        let r = child_poll(this.idx, cx);
        match r {
            CRes::Ready(v) | CRes::Ok(v) | CRes::Err(v) | CRes::Item(v) => {
                let keep_val = matches!(r, CRes::Err(_));
                if !keep_val {
                    // the script's own value is not part of the data flow: release it right away
                    drop(Val::from_id(v));
                }
                match this.payload.take() {
                    Some(p) => {
                        live(&this.stage, -1);
                        Poll::Ready((this.fin)(p, r))
                    }
                    None => Poll::Pending,
                }
            }
            _ => Poll::Pending,
        }
    }
}

impl<T, O> Drop for Work<T, O> {
    fn drop(&mut self) {
        if self.payload.is_some() {
            live(&self.stage, -1);
        }
        let idx = self.idx;
        w(|w| {
            w.children[idx].drops += 1;
            w.ev(Ev::ChildDrop { c: idx });
        });
    }
}

fn live(stage: &str, d: isize) {
    w(|w| {
        if let Some(e) = w.live_closure_futs.iter_mut().find(|e| e.0 == stage) {
            e.1 += d;
            e.2 = e.2.max(e.1);
        } else {
            w.live_closure_futs.push((stage.to_string(), d, d.max(0)));
        }
    });
}

fn make_work<T: Norm, O>(stage: &Rc<str>, scripts: &Scripts, fallible: bool, x: T, fin: fn(T, CRes) -> O) -> Work<T, O> {
    let item = x.item();
    let label = format!("{stage}:{item}");
    let default = [if fallible { Step::Ok } else { Step::Ready }];
    let script: &[Step] = scripts.get(&label).map(|v| &v[..]).unwrap_or(&default);
    let idx = w(|w| {
        let idx = w.add_child(if fallible { Kind::FutR } else { Kind::Fut }, label.clone(), script.to_vec());
        w.ev(Ev::Closure { stage: stage.to_string(), item, c: idx });
        idx
    });
    live(stage, 1);
    Work { idx, stage: stage.clone(), payload: Some(x), fin }
}

fn fin_pass<T>(x: T, _r: CRes) -> T {
    x
}
fn fin_unit<T>(_x: T, _r: CRes) {}
fn fin_try<T>(_x: T, r: CRes) -> Result<(), Val> {
    match r {
        CRes::Err(v) => Err(Val::from_id(v)),
        _ => Ok(()),
    }
}
fn fin_res<T>(x: T, r: CRes) -> Result<T, Val> {
    match r {
        CRes::Err(v) => Err(Val::from_id(v)),
        _ => Ok(x),
    }
}

fn closure<T: Norm, O: 'static>(
    stage: &str,
    scripts: &Scripts,
    fallible: bool,
    fin: fn(T, CRes) -> O,
) -> impl Fn(T) -> Work<T, O> + Clone + 'static {
    let stage: Rc<str> = Rc::from(stage);
    let scripts = scripts.clone();
    move |x: T| make_work(&stage, &scripts, fallible, x, fin)
}

// ---------------------------------------------------------------------------------------
// stack + terminal
// ---------------------------------------------------------------------------------------

struct Ctx {
    scripts: Scripts,
    terminal: String,
}

fn term<CS>(cs: CS, ctx: &Ctx) -> Result<Parent, String>
where
    CS: ConcurrentStream + 'static,
    CS::Item: Norm,
{
    let s = &ctx.scripts;
    Ok(match ctx.terminal.as_str() {
        "collect" => Parent::fut_with(async move { cs.collect::<Vec<CS::Item>>().await }, |v| {
            Shape::L(v.iter().map(|x| x.flat()).collect())
        }),
        "for_each" => {
            let f = closure::<CS::Item, ()>("t", s, false, fin_unit);
            Parent::fut_with(async move { cs.for_each(f).await }, |_| Shape::Unit)
        }
        "try_for_each" => {
            let f = closure::<CS::Item, Result<(), Val>>("t", s, true, fin_try);
            Parent::fut_with(async move { cs.try_for_each(f).await }, |r| match r {
                Ok(()) => Shape::Ok(Box::new(Shape::Unit)),
                Err(e) => Shape::Err(Box::new(Shape::V(e.snap()))),
            })
        }
        "collect_result" => {
            let f = closure::<CS::Item, Result<CS::Item, Val>>("r", s, true, fin_res);
            Parent::fut_with(async move { cs.map(f).collect::<Result<Vec<CS::Item>, Val>>().await }, |r| match r {
                Ok(v) => Shape::Ok(Box::new(Shape::L(v.iter().map(|x| x.flat()).collect()))),
                Err(e) => Shape::Err(Box::new(Shape::V(e.snap()))),
            })
        }
        t => return Err(format!("unknown terminal {t:?}")),
    })
}

macro_rules! level {
    ($name:ident, $next:ident) => {
        fn $name<CS>(cs: CS, pos: usize, rest: &[Adapter], ctx: &Ctx) -> Result<Parent, String>
        where
            CS: ConcurrentStream + 'static,
            CS::Item: Norm,
        {
            match rest.first() {
                None => term(cs, ctx),
                Some(Adapter::Map) => {
                    let f = closure::<CS::Item, CS::Item>(&format!("m{pos}"), &ctx.scripts, false, fin_pass);
                    $next(cs.map(f), pos + 1, &rest[1..], ctx)
                }
                Some(Adapter::Enumerate) => $next(cs.enumerate(), pos + 1, &rest[1..], ctx),
                Some(Adapter::Take(n)) => $next(cs.take(*n), pos + 1, &rest[1..], ctx),
                Some(Adapter::Limit(n)) => $next(cs.limit(NonZeroUsize::new(*n)), pos + 1, &rest[1..], ctx),
            }
        }
    };
}

fn level0<CS>(cs: CS, _pos: usize, rest: &[Adapter], ctx: &Ctx) -> Result<Parent, String>
where
    CS: ConcurrentStream + 'static,
    CS::Item: Norm,
{
    if !rest.is_empty() {
        return Err("adapter stacks deeper than 3 are not supported".into());
    }
    term(cs, ctx)
}
level!(level1, level0);
level!(level2, level1);
level!(level3, level2);

pub fn build(sc: &Scenario) -> Result<Parent, String> {
    let co = sc.co.as_ref().ok_or("co_stream scenario without \"co\" object")?;
    let ctx = Ctx { scripts: Rc::new(co.work.clone()), terminal: co.terminal.clone() };
    let src = match co.source.as_str() {
        "co" => {
            let script = sc.children.first().ok_or("co source needs children[0] = source stream script")?;
            Src::Co(SStream::new("src", script).co())
        }
        "vec" => {
            let items: Vec<Val> = (0..co.len).map(|_| Val::fresh(VEC_SOURCE, 's')).collect();
            Src::V(items.into_co_stream())
        }
        s => return Err(format!("unknown source {s:?}")),
    };
    level3(src, 0, &co.stack, &ctx)
}
