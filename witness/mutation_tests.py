#!/usr/bin/env python3
"""Mutation tests for the witness harness.

Copies /repo and this crate to /var/tmp/witness-scratch, applies one deliberate mutation at a
time to the scratch copy of /repo, rebuilds the scratch witness binary against it and checks that
the named (family, container, property) search reports `found:true`.  Nothing outside
/var/tmp/witness-scratch is touched; the scratch directory is removed at the end (unless --keep).

usage: mutation_tests.py [--keep] [--only <name-substring>] [--budget N]
"""
import json
import os
import shutil
import subprocess
import sys

SCRATCH = "/var/tmp/witness-scratch"
REPO = "/repo"
HERE = os.path.dirname(os.path.abspath(__file__))
TARGET = SCRATCH + "/target"

# (name, file, old, new, [(family, container, prop)], needs_costream, std_only)
MUTATIONS = [
    ("join_array_all_outputs_to_slot0", "src/future/join/array.rs",
     "this.items.write(i, value);", "this.items.write(0, value);",
     [("join", "array", "C04")], False, False),
    ("join_array_sequential_one_child_per_poll", "src/future/join/array.rs",
     "                // Lock readiness so we can use it again\n                readiness = this.wakers.readiness();\n",
     "                // Lock readiness so we can use it again\n                readiness = this.wakers.readiness();\n                if *this.pending != 0 { break; }\n",
     [("join", "array", "C20")], False, False),
    ("join_vec_polls_every_child_every_time", "src/future/join/vec.rs",
     "if states[i].is_pending() && readiness.clear_ready(i) {",
     "if states[i].is_pending() && { readiness.clear_ready(i); true } {",
     [("join", "vec", "C16")], False, True),
    ("join_tuple_state_not_marked_ready", "src/future/join/tuple.rs",
     "                $this.state[$fut_idx].set_ready();\n", "",
     [("join", "tuple", "C03")], False, False),
    ("inline_waker_array_inverted_parent_wake", "src/utils/wakers/array/waker.rs",
     "if !readiness.set_ready(self.id) {", "if readiness.set_ready(self.id) {",
     [("join", "array", "C01"), ("merge", "tuple", "C01"), ("zip", "array", "C01")], False, True),
    ("try_join_array_drop_forgets_pending_futures", "src/future/try_join/array.rs",
     "            unsafe { this.futures.as_mut().drop(i) };", "            let _ = i;",
     [("try_join", "array", "C02")], False, False),
    ("try_join_vec_no_short_circuit", "src/future/try_join/vec.rs",
     "return Poll::Ready(Err(err));", "drop(err); readiness = this.wakers.readiness(); continue;",
     [("try_join", "vec", "C05")], False, False),
    ("race_vec_keeps_polling_after_ready", "src/future/race/vec.rs",
     """        for index in this.indexer.iter() {
            let fut = utils::get_pin_mut_from_vec(this.futures.as_mut(), index).unwrap();
            match fut.poll(cx) {
                Poll::Ready(item) => {
                    *this.done = true;
                    return Poll::Ready(item);
                }
                Poll::Pending => continue,
            }
        }
        Poll::Pending""",
     """        let mut out = None;
        for index in this.indexer.iter() {
            let fut = utils::get_pin_mut_from_vec(this.futures.as_mut(), index).unwrap();
            match fut.poll(cx) {
                Poll::Ready(item) => {
                    if out.is_none() {
                        out = Some(item);
                    }
                }
                Poll::Pending => continue,
            }
        }
        match out {
            Some(item) => {
                *this.done = true;
                Poll::Ready(item)
            }
            None => Poll::Pending,
        }""",
     [("race", "vec", "C06")], False, False),
    ("race_ok_vec_reversed_aggregate", "src/future/race_ok/vec/mod.rs",
     "            Poll::Ready(Err(AggregateError::new(result)))",
     "            let mut result = result; result.reverse();\n            Poll::Ready(Err(AggregateError::new(result)))",
     [("race_ok", "vec", "C07")], False, False),
    ("merge_array_no_rearm_after_item", "src/stream/merge/array.rs",
     "                    this.wakers.readiness().set_ready(index);\n", "",
     [("merge", "array", "C01")], False, True),
    ("merge_vec_none_too_early", "src/stream/merge/vec.rs",
     "if *this.complete == this.streams.len() {", "if *this.complete + 1 >= this.streams.len() {",
     [("merge", "vec", "C08")], False, False),
    ("indexer_no_rotation", "src/utils/indexer.rs",
     "self.offset = (self.offset + 1).wrapping_rem(self.max);", "self.offset = 0;",
     [("merge", "tuple", "C17"), ("merge", "vec", "C17")], False, False),
    ("zip_vec_no_set_all_ready_after_row", "src/stream/zip/vec.rs",
     "readiness.set_all_ready();", "",
     [("zip", "vec", "C01")], False, True),
    ("zip_array_row_positions_rotated", "src/stream/zip/array.rs",
     "                        let output = unsafe { array_assume_init(output) };\n",
     "                        let mut output = unsafe { array_assume_init(output) };\n                        output.rotate_left(1);\n",
     [("zip", "array", "C09")], False, False),
    ("chain_array_skips_pending_input", "src/stream/chain/array.rs",
     "                Poll::Pending => return Poll::Pending,",
     "                Poll::Pending => {\n                    if *this.index + 1 < *this.len { *this.index += 1; continue; }\n                    return Poll::Pending;\n                }",
     [("chain", "array", "C10")], False, False),
    ("future_group_remove_keeps_key", "src/future/future_group.rs",
     "let is_present = self.keys.remove(&key.0);", "let is_present = self.keys.contains(&key.0);",
     [("future_group", "group", "C11")], False, False),
    ("stream_group_no_rearm_after_item", "src/stream/stream_group.rs",
     "                        let mut readiness = this.wakers.readiness();\n                        readiness.set_ready(index);\n", "",
     [("stream_group", "group", "C01")], False, True),
    ("stream_group_none_when_any_member_ends", "src/stream/stream_group.rs",
     "if done_count == stream_count {", "if done_count > 0 {",
     [("stream_group", "group", "C12")], False, False),
    ("wait_until_stream_polls_inner_early", "src/stream/wait_until.rs",
     "                Poll::Pending => Poll::Pending,",
     "                Poll::Pending => {\n                    let _ = this.stream.poll_next(cx);\n                    Poll::Pending\n                }",
     [("wait_until", "na", "C19")], False, False),
    ("join_vec_lock_held_across_child_poll", "src/future/join/vec.rs",
     "                #[allow(clippy::drop_non_drop)]\n                drop(readiness);\n", "",
     [("join", "vec", "C01")], False, True),
    ("future_group_yields_wrong_key", "src/future/future_group.rs",
     "ret = Poll::Ready(Some((Key(index), item)));", "ret = Poll::Ready(Some((Key(index + 1), item)));",
     [("future_group", "group", "C11")], False, False),
    ("try_for_each_keeps_going_after_error", "src/concurrent_stream/try_for_each.rs",
     """            if let ControlFlow::Break(residual) = res.branch() {
                *this.residual = Some(residual);
                return ConsumerState::Break;
            }
        }
        ConsumerState::Empty""",
     """            if let ControlFlow::Break(residual) = res.branch() {
                *this.residual = Some(residual);
            }
        }
        ConsumerState::Empty""",
     [("co_stream", "na", "C14")], True, False),
    ("for_each_ignores_limit", "src/concurrent_stream/for_each.rs",
     "while this.count.load(Ordering::Relaxed) >= *this.limit {", "while false && this.count.load(Ordering::Relaxed) >= *this.limit {",
     [("co_stream", "na", "C13")], True, False),
    ("try_for_each_flush_swallows_residual", "src/concurrent_stream/try_for_each.rs",
     "            return B::from_residual(this.residual.take().unwrap());", "            let _ = this.residual.take();",
     [("co_stream", "na", "C14")], True, False),
    ("enumerate_counts_from_one", "src/concurrent_stream/enumerate.rs",
     "        let count = *this.count;\n        *this.count += 1;", "        *this.count += 1;\n        let count = *this.count;",
     [("co_stream", "na", "C15")], True, False),
]


def sh(cmd, **kw):
    return subprocess.run(cmd, shell=True, stdout=subprocess.PIPE, stderr=subprocess.STDOUT, text=True, **kw)


def main():
    keep = "--keep" in sys.argv
    only = sys.argv[sys.argv.index("--only") + 1] if "--only" in sys.argv else None
    budget = sys.argv[sys.argv.index("--budget") + 1] if "--budget" in sys.argv else "4000"
    if os.path.exists(SCRATCH + "/repo"):
        shutil.rmtree(SCRATCH + "/repo")
    if os.path.exists(SCRATCH + "/witness"):
        shutil.rmtree(SCRATCH + "/witness")
    os.makedirs(SCRATCH, exist_ok=True)
    shutil.copytree(REPO, SCRATCH + "/repo", ignore=shutil.ignore_patterns("target", ".git"))
    shutil.copytree(HERE, SCRATCH + "/witness", ignore=shutil.ignore_patterns("target"))
    for f in ("Cargo.toml", "nostd/Cargo.toml"):
        p = SCRATCH + "/witness/" + f
        s = open(p).read().replace('path = "/repo"', 'path = "%s/repo"' % SCRATCH)
        open(p, "w").write(s)
    env = dict(os.environ, CARGO_NET_OFFLINE="true", CARGO_TARGET_DIR=TARGET)
    results = []
    for (name, file, old, new, checks, needs_co, std_only) in MUTATIONS:
        if only and only not in name:
            continue
        path = SCRATCH + "/repo/" + file
        orig = open(REPO + "/" + file).read()
        if old not in orig:
            results.append((name, "PATCH-DOES-NOT-APPLY", ""))
            print(name, "PATCH DOES NOT APPLY")
            continue
        open(path, "w").write(orig.replace(old, new, 1))
        feats = "--no-default-features --features std" + (",costream" if needs_co else "")
        b = sh("cargo build --offline --release %s" % feats, cwd=SCRATCH + "/witness", env=env)
        ok_build = b.returncode == 0
        if not ok_build:
            print(name, "BUILD FAILED\n", b.stdout[-3000:])
            results.append((name, "BUILD-FAILED", ""))
            open(path, "w").write(orig)
            continue
        for (fam, cont, prop) in checks:
            r = sh("%s/release/witness --family %s --container %s --prop %s --budget %s --avoid-known" % (TARGET, fam, cont, prop, budget))
            line = r.stdout.strip().splitlines()[-1] if r.stdout.strip() else ""
            found = r.returncode == 1 and '"found":true' in line
            obs = ""
            if found:
                try:
                    obs = json.loads(line)["observed"]
                except Exception:
                    obs = line[:300]
            print("%-48s %s/%s/%s -> %s  %s" % (name, fam, cont, prop, "FOUND" if found else "MISSED (exit %d) %s" % (r.returncode, line[:300]), obs[:260]))
            results.append((name, "FOUND" if found else "MISSED", "%s/%s/%s" % (fam, cont, prop)))
        open(path, "w").write(orig)
    missed = [r for r in results if r[1] != "FOUND"]
    print("\n%d checks, %d not found" % (len(results), len(missed)))
    if not keep:
        shutil.rmtree(SCRATCH, ignore_errors=True)
    sys.exit(1 if missed else 0)


if __name__ == "__main__":
    main()
