//! Kani harnesses compiled INSIDE futures-concurrency through the hook
//! `#[cfg(kani)] #[path = "/verif/kani/in_crate.rs"] mod verif_kani;` in src/lib.rs (guard: cfg(kani), set only
//! by cargo-kani).  They check, on the real compiled unsafe leaves, the contract clauses that the Verus units
//! ASSUME for the storage models (units/model_slots.vx, model_kids.vx).  All are loop-free or have a constant
//! unwinding bound and are labelled bounded in the evidence (N fixed at 2 or 3).
#![allow(dead_code, unused_imports)]

use crate::utils::{array_assume_init, FutureArray, OutputArray};
use core::mem::MaybeUninit;
use core::pin::Pin;

/// OutputArray: a slot is initialised exactly between write and take; take returns each value at its index.
#[kani::proof]
fn k2_output_array_write_take_positional() {
    let a: u8 = kani::any();
    let b: u8 = kani::any();
    let c: u8 = kani::any();
    let mut out: OutputArray<u8, 3> = OutputArray::uninit();
    // any write order
    let first: usize = kani::any();
    kani::assume(first < 3);
    let vals = [a, b, c];
    out.write(first, vals[first]);
    out.write((first + 1) % 3, vals[(first + 1) % 3]);
    out.write((first + 2) % 3, vals[(first + 2) % 3]);
    let got = unsafe { out.take() };
    assert!(got[0] == a && got[1] == b && got[2] == c);
}

/// OutputArray with an owning payload: write / drop(i) / take do not double free or read freed memory
/// (CBMC pointer checks).
#[kani::proof]
fn k2_output_array_box_drop_once() {
    extern crate alloc;
    use alloc::boxed::Box;
    let mut out: OutputArray<Box<u8>, 2> = OutputArray::uninit();
    let x: u8 = kani::any();
    out.write(0, Box::new(x));
    if kani::any() {
        out.write(1, Box::new(7));
        let got = unsafe { out.take() };
        assert!(*got[0] == x && *got[1] == 7);
    } else {
        unsafe { out.drop(0) };
    }
}

/// array_assume_init is the identity on initialised arrays.
#[kani::proof]
fn k2_array_assume_init_identity() {
    let a: u16 = kani::any();
    let b: u16 = kani::any();
    let arr = [MaybeUninit::new(a), MaybeUninit::new(b)];
    let got = unsafe { array_assume_init(arr) };
    assert!(got[0] == a && got[1] == b);
}

struct Counted<'a>(&'a core::cell::Cell<u8>);
impl<'a> Drop for Counted<'a> {
    fn drop(&mut self) {
        self.0.set(self.0.get() + 1);
    }
}

/// FutureArray::new moves every element in unchanged and drops nothing; drop(idx) drops exactly element idx;
/// dropping the FutureArray itself drops nothing (ManuallyDrop).
#[kani::proof]
fn k2_future_array_drop_exactly_one() {
    let c0 = core::cell::Cell::new(0u8);
    let c1 = core::cell::Cell::new(0u8);
    let mut fa = FutureArray::new([Counted(&c0), Counted(&c1)]);
    assert!(c0.get() == 0 && c1.get() == 0);
    let idx: usize = kani::any();
    kani::assume(idx < 2);
    unsafe { Pin::new_unchecked(&mut fa).drop(idx) };
    assert!(c0.get() == if idx == 0 { 1 } else { 0 });
    assert!(c1.get() == if idx == 1 { 1 } else { 0 });
    drop(fa);
    assert!(c0.get() + c1.get() == 1);
}

// ---- Vec-backed leaves (alloc) ----
use crate::utils::{FutureVec, OutputVec};

/// OutputVec keeps its slots in the spare capacity of an empty Vec: write(i, v) then take() returns every value at
/// its own index (the clause units/output_vec.vx proves over the SpareVec model; here on the real memory).
#[kani::proof]
#[kani::unwind(5)]
fn k2_output_vec_write_take_positional() {
    let a: u8 = kani::any();
    let b: u8 = kani::any();
    let mut out: OutputVec<u8> = OutputVec::uninit(2);
    if kani::any() {
        out.write(0, a);
        out.write(1, b);
    } else {
        out.write(1, b);
        out.write(0, a);
    }
    let got = unsafe { out.take() };
    assert!(got.len() == 2 && got[0] == a && got[1] == b);
}

/// OutputVec with an owning payload: write / drop(i) / take neither double free nor touch freed memory.
#[kani::proof]
#[kani::unwind(5)]
fn k2_output_vec_box_drop_once() {
    extern crate alloc;
    use alloc::boxed::Box;
    let mut out: OutputVec<Box<u8>> = OutputVec::uninit(2);
    let x: u8 = kani::any();
    out.write(1, Box::new(x));
    if kani::any() {
        out.write(0, Box::new(3));
        let got = unsafe { out.take() };
        assert!(*got[0] == 3 && *got[1] == x);
    } else {
        unsafe { out.drop(1) };
    }
}

/// FutureVec::new moves every element in unchanged and drops nothing; drop(idx) drops exactly element idx.
#[kani::proof]
#[kani::unwind(5)]
fn k2_future_vec_drop_exactly_one() {
    extern crate alloc;
    let c0 = core::cell::Cell::new(0u8);
    let c1 = core::cell::Cell::new(0u8);
    let mut v = alloc::vec::Vec::new();
    v.push(Counted(&c0));
    v.push(Counted(&c1));
    let mut fv = FutureVec::new(v);
    assert!(c0.get() == 0 && c1.get() == 0);
    let idx: usize = kani::any();
    kani::assume(idx < 2);
    unsafe { Pin::new_unchecked(&mut fv).drop(idx) };
    assert!(c0.get() == if idx == 0 { 1 } else { 0 });
    assert!(c1.get() == if idx == 1 { 1 } else { 0 });
}

// ---- K1: the PollArray / PollVec index helpers that rule P3_{ready,pending}_indexes_* replaces by an index loop ----
use crate::utils::{PollArray, PollVec};

fn any_state() -> crate::utils::PollState {
    match kani::any::<u8>() % 3 {
        0 => crate::utils::PollState::None,
        1 => crate::utils::PollState::Pending,
        _ => crate::utils::PollState::Ready,
    }
}

/// `ready_indexes()` / `pending_indexes()` yield exactly the indexes i (ascending) with state[i] Ready / Pending
/// (all 27 states of a PollArray<3>).
#[kani::proof]
#[kani::unwind(5)]
fn k1_pollarray_index_helpers() {
    let mut st: PollArray<3> = PollArray::new();
    st[0] = any_state();
    st[1] = any_state();
    st[2] = any_state();
    let mut expect_ready = [false; 3];
    let mut expect_pending = [false; 3];
    for i in 0..3 {
        expect_ready[i] = st[i].is_ready();
        expect_pending[i] = st[i].is_pending();
    }
    let mut seen = [false; 3];
    let mut last: Option<usize> = None;
    for i in st.ready_indexes() {
        assert!(i < 3 && expect_ready[i] && !seen[i]);
        assert!(last.map_or(true, |l| l < i));
        seen[i] = true;
        last = Some(i);
    }
    for i in 0..3 {
        assert!(seen[i] == expect_ready[i]);
    }
    let mut seen_p = [false; 3];
    for i in st.pending_indexes() {
        assert!(i < 3 && expect_pending[i] && !seen_p[i]);
        seen_p[i] = true;
    }
    for i in 0..3 {
        assert!(seen_p[i] == expect_pending[i]);
    }
}

/// K1 (bounded): PollVec -- the Vec twin of the index helpers above (N = 3, all 27 states).  A harness for `resize` across
/// SmallVec's inline capacity (2 -> 24 entries) did not finish in CBMC within 25 minutes and is not included.
#[kani::proof]
#[kani::unwind(5)]
fn k1_pollvec_index_helpers() {
    use crate::utils::PollVec;
    let mut st = PollVec::new(3);
    st[0] = any_state();
    st[1] = any_state();
    st[2] = any_state();
    let mut seen = [false; 3];
    let mut last: Option<usize> = None;
    for i in st.ready_indexes() {
        assert!(i < 3 && st[i].is_ready() && !seen[i]);
        assert!(last.map_or(true, |l| l < i));
        seen[i] = true;
        last = Some(i);
    }
    for i in 0..3 {
        assert!(seen[i] == st[i].is_ready());
    }
    let mut seen_p = [false; 3];
    for i in st.pending_indexes() {
        assert!(i < 3 && st[i].is_pending() && !seen_p[i]);
        seen_p[i] = true;
    }
    for i in 0..3 {
        assert!(seen_p[i] == st[i].is_pending());
    }
}
